package main

import (
	"archive/zip"
	"bytes"
	"context"
	"encoding/binary"
	"fmt"
	"github.com/polydawn/rio/fs"
	"hash/crc32"
	"net"
	"net/http"
	"net/http/httptest"
	"os"
	"os/exec"
	"path/filepath"
	"strings"
	"syscall"
	"time"

	api "github.com/polydawn/go-timeless-api"
	"github.com/polydawn/go-timeless-api/rio"
	ziptrans "github.com/polydawn/rio/transmat/zip"
)

func init() {
	engines["zipfuzz"] = zipfuzzEngine
	engines["cli"] = cliEngine
}

var documentedExit = map[int]bool{0: true, 1: true, 3: true, 4: true, 5: true, 6: true, 7: true, 8: true, 9: true, 10: true, 11: true, 12: true, 13: true, 120: true}

// zipfuzzExec: recipe "zipfuzz <mut> <fileset>" — mut: none | flip:<off>:<bit> | trunc:<n> | extralen:<k>:<delta> | cdir:<off>:<val>
func zipfuzzExec(c *Ctx, op string) {
	c.Begin(op)
	f := strings.Fields(op)
	mut := f[1]
	fsx := parseFilesetTok(f[2])
	caseCounter++
	base := filepath.Join(c.Work, fmt.Sprintf("zf%d", caseCounter))
	defer rmrf(base)
	src, wh := filepath.Join(base, "src"), filepath.Join(base, "wh")
	os.MkdirAll(wh, 0755)
	if Materialize(fsx, src, nil) != nil {
		c.EmitR(op, "skip", "skip")
		return
	}
	ctx := context.Background()
	pf := api.MustParseFilesetPackFilter(losslessPackStr)
	id, err := ziptrans.Pack(ctx, "zip", src, pf, whAddr("file", wh), rio.Monitor{})
	if err != nil {
		c.EmitR(op, "skip", "skip")
		return
	}
	ware := storedWarePath("file", wh, id)
	b, _ := os.ReadFile(ware)
	m := strings.Split(mut, ":")
	arg := func(i int) int {
		n := 0
		if len(m) > i {
			fmt.Sscan(m[i], &n)
		}
		return n
	}
	switch m[0] {
	case "flip":
		if len(b) > 0 {
			b[arg(1)%len(b)] ^= 1 << uint(arg(2)%8)
		}
	case "trunc":
		b = b[:arg(1)%(len(b)+1)]
	case "extralen":
		// k-th central directory header: bump the declared length of its last extra block, or the extra field length
		offs := findAll(b, []byte{'P', 'K', 1, 2})
		if len(offs) > 0 {
			o := offs[arg(1)%len(offs)]
			if o+46 <= len(b) {
				nameLen := int(binary.LittleEndian.Uint16(b[o+28:]))
				extraLen := int(binary.LittleEndian.Uint16(b[o+30:]))
				ex := o + 46 + nameLen
				// walk blocks to the last one
				i := ex
				last := -1
				for i+4 <= ex+extraLen && i+4 <= len(b) {
					last = i
					i += 4 + int(binary.LittleEndian.Uint16(b[i+2:]))
				}
				if last >= 0 {
					l := int(binary.LittleEndian.Uint16(b[last+2:]))
					binary.LittleEndian.PutUint16(b[last+2:], uint16(l+arg(2)))
				}
			}
		}
	case "cdir":
		offs := findAll(b, []byte{'P', 'K', 1, 2})
		if len(offs) > 0 {
			o := offs[arg(1)%len(offs)] + 4 + arg(2)%42
			if o < len(b) {
				b[o] = byte(arg(3))
			}
		}
	case "liesize":
		// a structurally valid zip (written with zip.Writer.CreateRaw) in which one entry declares an uncompressed size
		// that is not the size of its data: huge (zip64), negative as int64, zero, off by one
		sizes := []uint64{1<<63 + 6, 1 << 62, 1 << 48, 1 << 32, 0xffffffff, 0, 1, 7}
		var zb bytes.Buffer
		zw := zip.NewWriter(&zb)
		victim := arg(1) % len(fsx)
		for i, e := range fsx {
			name := e.Name
			data := e.Content
			mode := os.FileMode(e.Perms & 0777)
			switch e.Kind {
			case 'd':
				name += "/"
				mode |= os.ModeDir
				data = nil
			case 'L':
				mode |= os.ModeSymlink
				data = []byte(e.Link)
			}
			if e.Name == "" {
				name = "./"
			}
			fh := &zip.FileHeader{Name: name, Method: zip.Store}
			fh.SetMode(mode)
			fh.CRC32 = crc32.ChecksumIEEE(data)
			fh.CompressedSize64 = uint64(len(data))
			fh.UncompressedSize64 = uint64(len(data))
			if i == victim {
				fh.UncompressedSize64 = sizes[arg(2)%len(sizes)]
			}
			if w, e := zw.CreateRaw(fh); e == nil {
				w.Write(data)
			}
		}
		zw.Close()
		b = zb.Bytes()
	case "extra":
		// a structurally valid zip whose entries carry the given extra field verbatim (no Modified time, so archive/zip
		// appends nothing after it: the owner blocks end where the field ends)
		extra := []byte(unhx(m[1]))
		var zb bytes.Buffer
		zw := zip.NewWriter(&zb)
		for _, e := range fsx {
			name := e.Name
			data := e.Content
			mode := os.FileMode(e.Perms & 0777)
			switch e.Kind {
			case 'd':
				name += "/"
				mode |= os.ModeDir
				data = nil
			case 'L':
				mode |= os.ModeSymlink
				data = []byte(e.Link)
			}
			if e.Name == "" {
				name = "./"
			}
			fh := &zip.FileHeader{Name: name, Method: zip.Store, Extra: extra}
			fh.SetMode(mode)
			fh.CRC32 = crc32.ChecksumIEEE(data)
			fh.CompressedSize64 = uint64(len(data))
			fh.UncompressedSize64 = uint64(len(data))
			if w, e := zw.CreateRaw(fh); e == nil {
				w.Write(data)
			}
		}
		zw.Close()
		b = zb.Bytes()
	case "types":
		// a structurally valid zip whose first entry has one of the root spellings and one of the unix file types
		// (device, fifo, socket, …), optionally followed by a child
		rootName := []string{".", "./", "", "x", "d/"}[arg(1)%5]
		mode := []os.FileMode{os.ModeDevice | os.ModeCharDevice | 0666, os.ModeDevice | 0660, os.ModeNamedPipe | 0644, os.ModeSocket | 0755,
			os.ModeDir | 0755, 0644, os.ModeSymlink | 0777, os.ModeIrregular | 0644}[arg(2)%8]
		var zb bytes.Buffer
		zw := zip.NewWriter(&zb)
		fh := &zip.FileHeader{Name: rootName, Method: zip.Store}
		fh.SetMode(mode)
		if w, e := zw.CreateRaw(fh); e == nil {
			_ = w
		}
		if arg(3)%3 > 0 {
			ch := &zip.FileHeader{Name: []string{"", "a", "d/x"}[arg(3)%3], Method: zip.Store}
			ch.SetMode(0644)
			zw.CreateRaw(ch)
		}
		zw.Close()
		b = zb.Bytes()
	case "garbage":
		b = []byte("PK\x03\x04 this is not a zip, not really" + strings.Repeat("x", arg(1)%200))
	case "tarbytes":
		b = []byte(strings.Repeat("\x00", 1024))
	}
	os.WriteFile(ware, b, 0644)
	uf := api.MustParseFilesetUnpackFilter(losslessUnpackStr)
	_, serr, span := safeCall(func() (api.WareID, error) {
		return ziptrans.Scan(ctx, "zip", uf, rio.Placement_Direct, api.WarehouseLocation("file://"+ware), rio.Monitor{})
	})
	res := "ok"
	switch {
	case span != "":
		res = "panic"
		c.PropFail("panic-zip", "zip scan panicked on malformed content: "+span, op)
	case serr != nil:
		res = "err " + catOf(serr)
		if !strings.HasPrefix(catOf(serr), "rio-") {
			c.PropFail("uncategorized", "zip scan returned a non-rio error category: "+catOf(serr), op)
		}
	}
	// the same under a filter that ejects device nodes
	{
		ufi := api.MustParseFilesetUnpackFilter("uid=follow,gid=follow,mtime=follow,sticky=follow,setid=follow,dev=ignore")
		_, ierr, ipan := safeCall(func() (api.WareID, error) {
			return ziptrans.Scan(ctx, "zip", ufi, rio.Placement_Direct, api.WarehouseLocation("file://"+ware), rio.Monitor{})
		})
		if ipan != "" {
			c.PropFail("panic-zip", "zip scan with dev=ignore panicked: "+ipan, op)
		} else if ierr != nil && !strings.HasPrefix(catOf(ierr), "rio-") {
			c.PropFail("uncategorized", "zip scan with dev=ignore returned a non-rio error category: "+catOf(ierr), op)
		}
	}
	// the real unpack too (direct), into a scratch target
	_, uerr, upan := safeCall(func() (api.WareID, error) {
		return ziptrans.Unpack(ctx, id, filepath.Join(base, "dst"), uf, rio.Placement_Direct, []api.WarehouseLocation{api.WarehouseLocation("file://" + ware)}, rio.Monitor{})
	})
	if upan != "" {
		c.PropFail("panic-zip", "zip unpack panicked on malformed content: "+upan, op)
	} else if uerr != nil && !strings.HasPrefix(catOf(uerr), "rio-") {
		c.PropFail("uncategorized", "zip unpack returned a non-rio error category: "+catOf(uerr), op)
	}
	c.H("mut:" + m[0] + ":" + strings.Fields(res)[0])
	c.EmitR(op, "skip", "skip")
	c.Distinct(op)
}

// ownerExtras: extra fields holding one owner block whose data is cut at every length, for the size bytes the parsers
// branch on; plus fields that end inside a block header, and blocks declaring more data than there is.
func ownerExtras() [][]byte {
	var out [][]byte
	for _, id := range []uint16{0x7875, 0x7855} {
		for l := 0; l <= 12; l++ {
			for _, us := range []byte{0, 2, 4, 8} {
				for _, gs := range []byte{2, 4, 9} {
					data := make([]byte, l)
					for i := range data {
						data[i] = byte(i + 1)
					}
					if l > 0 {
						data[0] = 1
					}
					if l > 1 {
						data[1] = us
					}
					if 2+int(us) < l {
						data[2+int(us)] = gs
					}
					ex := []byte{byte(id), byte(id >> 8), byte(l), 0}
					out = append(out, append(ex, data...))
					if id == 0x7855 {
						break
					}
				}
				if id == 0x7855 {
					break
				}
			}
		}
		out = append(out, []byte{byte(id)}, []byte{byte(id), byte(id >> 8)}, []byte{byte(id), byte(id >> 8), 4}, []byte{byte(id), byte(id >> 8), 200, 0, 1, 4})
	}
	return out
}

func findAll(b, pat []byte) []int {
	var out []int
	for i := 0; ; {
		j := bytes.Index(b[i:], pat)
		if j < 0 {
			return out
		}
		out = append(out, i+j)
		i += j + 1
	}
}

// zipOwnerExec: recipe "zipowner <hex(extra)|->" — the owner bits `ZipHdrToMetadata` reads from an extra field, compared
// with the Lean model `zipOwnership` (the slice handed over has no spare capacity: Go would otherwise read on into
// whatever follows the field).
func zipOwnerExec(c *Ctx, op string) {
	f := strings.Fields(op)
	var extra []byte
	if f[1] != "-" {
		extra = []byte(unhx(f[1]))
	}
	extra = append(make([]byte, 0, len(extra)), extra...)
	res := ""
	func() {
		defer func() {
			if r := recover(); r != nil {
				res = "panic"
				c.PropFail("panic-zip", fmt.Sprintf("ZipHdrToMetadata panicked on an extra field: %v", r), op)
			}
		}()
		var m fs.Metadata
		h := &zip.FileHeader{Name: "x", Extra: extra}
		h.SetMode(0644)
		if err := ziptrans.ZipHdrToMetadata(h, &m); err != nil {
			res = "err " + catOf(err)
			if !strings.HasPrefix(catOf(err), "rio-") {
				c.PropFail("uncategorized", "ZipHdrToMetadata returned a non-rio error category: "+catOf(err), op)
			}
		} else {
			res = fmt.Sprintf("ok %d %d", m.Uid, m.Gid)
		}
	}()
	c.H("zipowner:" + strings.Fields(res)[0])
	c.EmitR(op, op, res)
	c.Distinct(op)
}

// zipExtraExec: recipe "zipextra <uid> <gid>" — the owner blocks MetadataToZipHdr writes, compared with the model's `ownerExtra`
func zipExtraExec(c *Ctx, op string) {
	var m fs.Metadata
	f := strings.Fields(op)
	var u, g uint64
	fmt.Sscan(f[1], &u)
	fmt.Sscan(f[2], &g)
	m.Uid, m.Gid = uint32(u), uint32(g)
	m.Name = fs.MustRelPath("x")
	m.Type = fs.Type_File
	var h zip.FileHeader
	ziptrans.MetadataToZipHdr(&m, &h)
	c.EmitR(op, op, hx(string(h.Extra)))
}

func zipfuzzEngine(c *Ctx) {
	if ls := replayLines(); ls != nil {
		for _, op := range ls {
			if strings.HasPrefix(op, "zipfuzz ") {
				zipfuzzExec(c, op)
			} else if strings.HasPrefix(op, "zipowner ") {
				zipOwnerExec(c, op)
			} else if strings.HasPrefix(op, "zipextra ") {
				zipExtraExec(c, op)
			}
		}
		return
	}
	// the owner parser alone against its model: every cut owner block, what the packer writes, and random fields
	zipOwnerExec(c, "zipowner -")
	for _, ex := range ownerExtras() {
		zipOwnerExec(c, "zipowner "+hx(string(ex)))
	}
	nOwn := 1500
	if c.Tier == "thorough" {
		nOwn = 40000
	}
	for k := 0; k < nOwn; k++ {
		var ex []byte
		for b := 0; b < 1+c.Intn(3); b++ {
			id := []uint16{0x7875, 0x7855, 0x5455, 0x0001, uint16(c.Rand())}[c.Intn(5)]
			l := c.Intn(14)
			decl := l
			if c.Chance(1, 6) {
				decl = c.Intn(20)
			}
			blk := []byte{byte(id), byte(id >> 8), byte(decl), 0}
			for i := 0; i < l; i++ {
				v := byte(c.Rand())
				if c.Chance(1, 2) {
					v = []byte{0, 1, 2, 4, 8}[c.Intn(5)]
				}
				blk = append(blk, v)
			}
			ex = append(ex, blk...)
		}
		if c.Chance(1, 8) && len(ex) > 0 {
			ex = ex[:c.Intn(len(ex))]
		}
		if c.Chance(1, 5) { // what MetadataToZipHdr writes
			var m fs.Metadata
			m.Uid, m.Gid = uint32(c.Rand()), uint32(c.Rand())
			if c.Chance(1, 2) {
				m.Uid, m.Gid = uint32(c.Intn(70000)), uint32(c.Intn(70000))
			}
			m.Name = fs.MustRelPath("x")
			m.Type = fs.Type_File
			var h zip.FileHeader
			ziptrans.MetadataToZipHdr(&m, &h)
			ex = h.Extra
			// archive/zip appends its own timestamp block when the time is set; keep only the owner blocks
			if len(ex) > 23 {
				ex = ex[:23]
			}
			zipExtraExec(c, fmt.Sprintf("zipextra %d %d", m.Uid, m.Gid))
			exp := fmt.Sprintf("ok %d %d", m.Uid, m.Gid)
			var back fs.Metadata
			hh := &zip.FileHeader{Name: "x", Extra: ex}
			hh.SetMode(0644)
			if e := ziptrans.ZipHdrToMetadata(hh, &back); e != nil || fmt.Sprintf("ok %d %d", back.Uid, back.Gid) != exp {
				c.PropFail("roundtrip-tree", fmt.Sprintf("owner %d:%d written by MetadataToZipHdr is read back as %d:%d (%v)", m.Uid, m.Gid, back.Uid, back.Gid, e), "zipowner "+hx(string(ex)))
			}
		}
		zipOwnerExec(c, "zipowner "+hx(string(ex)))
	}
	n := 12
	if c.Tier == "thorough" {
		n = 150
	}
	for k := 0; k < n; k++ {
		fsx := c.GenFileset(GenOpts{MaxEntries: 4, Kinds: "ffdL", MaxContent: 200})
		sanitizeForRoundtrip(fsx, "zip")
		tok := filesetTok(fsx)
		zipfuzzExec(c, "zipfuzz none "+tok)
		for d := -6; d <= 8; d++ {
			if d != 0 {
				zipfuzzExec(c, fmt.Sprintf("zipfuzz extralen:%d:%d %s", c.Intn(8), d, tok))
			}
		}
		for i := 0; i < 25; i++ {
			zipfuzzExec(c, fmt.Sprintf("zipfuzz flip:%d:%d %s", c.Intn(1<<16), c.Intn(8), tok))
			zipfuzzExec(c, fmt.Sprintf("zipfuzz cdir:%d:%d:%d %s", c.Intn(8), c.Intn(42), c.Intn(256), tok))
		}
		for i := 0; i < 6; i++ {
			zipfuzzExec(c, fmt.Sprintf("zipfuzz trunc:%d %s", c.Intn(1<<16), tok))
		}
		for i := 0; i < 10; i++ {
			zipfuzzExec(c, fmt.Sprintf("zipfuzz liesize:%d:%d %s", c.Intn(8), c.Intn(8), tok))
		}
		if k < 2 {
			// owner blocks (unix3 0x7875, unix2 0x7855) of every short length, with every size byte that matters
			for _, ex := range ownerExtras() {
				zipfuzzExec(c, fmt.Sprintf("zipfuzz extra:%s %s", hx(string(ex)), tok))
			}
		} else {
			ex := ownerExtras()
			for i := 0; i < 6; i++ {
				zipfuzzExec(c, fmt.Sprintf("zipfuzz extra:%s %s", hx(string(ex[c.Intn(len(ex))])), tok))
			}
		}
		if k == 0 {
			for r := 0; r < 5; r++ {
				for t := 0; t < 8; t++ {
					for ch := 0; ch < 3; ch++ {
						zipfuzzExec(c, fmt.Sprintf("zipfuzz types:%d:%d:%d %s", r, t, ch, tok))
					}
				}
			}
		}
		zipfuzzExec(c, "zipfuzz garbage:17 "+tok)
		zipfuzzExec(c, "zipfuzz tarbytes "+tok)
	}
}

// ---------------------------------------------------------------------------------------------
// cli: argument vectors and failure causes through the rio binary built from the working tree.
// recipe: "cli <hex(arg)> <hex(arg)> ..."  ("@W@" = a scratch dir, "@GOODWARE@" / "@GOODID@" = a packed ware)
func cliExec(c *Ctx, op string) {
	c.Begin(op)
	f := strings.Fields(op)
	caseCounter++
	base := filepath.Join(c.Work, fmt.Sprintf("cl%d", caseCounter))
	defer rmrf(base)
	os.MkdirAll(filepath.Join(base, "src", "d"), 0755)
	os.WriteFile(filepath.Join(base, "src", "d", "f"), []byte("x"), 0644)
	os.MkdirAll(filepath.Join(base, "wh"), 0755)
	os.Symlink("loop", filepath.Join(base, "loop"))
	// a fileset holding the special files a walk can meet: a unix socket, a fifo, device nodes
	os.MkdirAll(filepath.Join(base, "special"), 0755)
	if l, e := net.Listen("unix", filepath.Join(base, "special", "sock")); e == nil {
		defer l.Close()
	}
	syscall.Mkfifo(filepath.Join(base, "special", "fifo"), 0644)
	syscall.Mknod(filepath.Join(base, "special", "chr"), syscall.S_IFCHR|0600, 1<<8|3)
	os.MkdirAll(filepath.Join(base, "onlysock"), 0755)
	if l, e := net.Listen("unix", filepath.Join(base, "onlysock", "s")); e == nil {
		defer l.Close()
	}
	// bystanders: a directory with a precious file and a symlink to it (an unpack target to be), whatever a vector does
	// they must be intact afterwards, and so must the source tree and the warehouse holding the good ware
	os.MkdirAll(filepath.Join(base, "precious-dir"), 0755)
	os.WriteFile(filepath.Join(base, "precious-dir", "precious"), []byte("keep me"), 0644)
	os.Symlink("precious-dir", filepath.Join(base, "tlink"))
	bin := os.Getenv("RIO_BIN")
	if bin == "" {
		c.EmitR(op, "skip", "skip")
		return
	}
	env := append(os.Environ(), "RIO_CACHE="+filepath.Join(base, "cache"), "RIO_BASE="+filepath.Join(base, "riobase"))
	// a good ware for the placeholders
	goodID := ""
	{
		cmd := exec.Command(bin, "pack", "tar", filepath.Join(base, "src"), "--target=ca+file://"+filepath.Join(base, "wh"))
		cmd.Env = env
		out, _ := cmd.Output()
		goodID = strings.TrimSpace(string(out))
	}
	// a second copy of that warehouse inside a directory that will be an unpack target, reachable also through a symlink
	// that lies outside of it; and that directory reachable through a symlinked parent
	if goodID != "" {
		exec.Command("cp", "-a", filepath.Join(base, "wh"), filepath.Join(base, "tgtreal-wh4.tmp")).Run()
		os.MkdirAll(filepath.Join(base, "tgtreal"), 0755)
		os.Rename(filepath.Join(base, "tgtreal-wh4.tmp"), filepath.Join(base, "tgtreal", "wh4"))
		os.Symlink(filepath.Join(base, "tgtreal", "wh4"), filepath.Join(base, "viewlink"))
		os.Symlink(base, filepath.Join(base, "..", filepath.Base(base)+"-alias"))
		defer os.Remove(filepath.Join(base, "..", filepath.Base(base)+"-alias"))
	}
	var args []string
	for _, a := range f[1:] {
		s := unhx(a)
		s = strings.ReplaceAll(s, "@WALIAS@", base+"-alias")
		s = strings.ReplaceAll(s, "@W@", base)
		s = strings.ReplaceAll(s, "@GOODID@", goodID)
		s = strings.ReplaceAll(s, "@HTTP@", brokenHTTP())
		args = append(args, s)
	}
	srcBefore, _ := Snapshot(filepath.Join(base, "src"))
	runDir := base
	for len(args) > 0 && (strings.HasPrefix(args[0], "@ENV:") || strings.HasPrefix(args[0], "@CD:")) {
		if strings.HasPrefix(args[0], "@ENV:") { // an environment setting for this vector
			env = append(env, strings.TrimSuffix(strings.TrimPrefix(args[0], "@ENV:"), "@"))
		} else { // the directory the command is started in
			runDir = filepath.Join(base, strings.TrimSuffix(strings.TrimPrefix(args[0], "@CD:"), "@"))
		}
		args = args[1:]
	}
	cmd := exec.Command(bin, args...)
	if len(args) > 0 && args[0] == "@GONE@" { // started in a working directory that has been removed meanwhile
		args = args[1:]
		cmd = exec.Command("sh", append([]string{"-c", `mkdir gone-cwd && cd gone-cwd && rmdir ../gone-cwd && exec "$0" "$@"`, bin}, args...)...)
	}
	cmd.Env = env
	cmd.Dir = runDir
	var stdout, stderr bytes.Buffer
	cmd.Stdout, cmd.Stderr = &stdout, &stderr
	err := cmd.Run()
	code := 0
	if err != nil {
		if ee, ok := err.(*exec.ExitError); ok {
			code = ee.ExitCode()
		} else {
			code = -1
		}
	}
	if b, e := os.ReadFile(filepath.Join(base, "precious-dir", "precious")); e != nil || string(b) != "keep me" {
		c.PropFail("cli-bystander", fmt.Sprintf("rio %q destroyed a file outside everything it was pointed at (the directory a symlinked target points to was emptied)", args), op)
	}
	if goodID != "" && !strings.Contains(strings.Join(args, " "), "--target=ca+file://"+filepath.Join(base, "wh")) {
		h := strings.TrimPrefix(goodID, "tar:")
		if _, e := os.Stat(filepath.Join(base, "wh", h[0:3], h[3:6], h)); e != nil && len(h) > 6 {
			c.PropFail("cli-bystander", fmt.Sprintf("rio %q deleted a ware from a warehouse it was only reading from", args), op)
		}
	}
	if goodID != "" {
		h := strings.TrimPrefix(goodID, "tar:")
		if _, e := os.Stat(filepath.Join(base, "tgtreal", "wh4", h[0:3], h[3:6], h)); e != nil && len(h) > 6 {
			c.PropFail("cli-bystander", fmt.Sprintf("rio %q deleted the warehouse it was reading from (it lies inside the unpack target, which is emptied first; one of the two was named through a symlink)", args), op)
		}
	}
	if sa, _ := Snapshot(filepath.Join(base, "src")); len(args) > 0 && sa.Digest(true) != srcBefore.Digest(true) {
		c.PropFail("cli-bystander", fmt.Sprintf("rio %q changed the fileset it packs from / a directory it was not pointed at: %s", args, DiffFilesets(srcBefore, sa, true)), op)
	}
	if code == 2 || code < 0 || strings.Contains(stderr.String(), "goroutine ") || strings.Contains(stderr.String(), "panic:") {
		c.PropFail("cli-crash", fmt.Sprintf("rio %q crashed (exit %d): %s", args, code, lastLine(stderr.String())), op)
	} else if !documentedExit[code] {
		c.PropFail("cli-undocumented-exit", fmt.Sprintf("rio %q exited with undocumented code %d", args, code), op)
	}
	// (the parser's own commands and flags — help, completion — are not operations: they print usage, no result event)
	parserOwn := false
	for _, a := range args {
		if a == "help" || strings.HasPrefix(a, "--completion-") || strings.HasPrefix(a, "--help") {
			parserOwn = true
		}
	}
	if code == 0 && strings.TrimSpace(stdout.String()) == "" && !parserOwn {
		c.PropFail("cli-no-result", fmt.Sprintf("rio %q succeeded without printing a result", args), op)
	}
	if code != 0 && strings.TrimSpace(stderr.String()) == "" && strings.TrimSpace(stdout.String()) == "" {
		c.PropFail("cli-no-result", fmt.Sprintf("rio %q failed (exit %d) without any message", args, code), op)
	}
	c.H(fmt.Sprintf("exit:%d", code))
	c.EmitR(op, "skip", "skip")
	c.Distinct(op)
}

var brokenSrv *httptest.Server

// brokenHTTP: a warehouse behind HTTP whose transfers break off — it announces the full Content-Length of a valid
// zip / tar.gz ware, sends half of the body and drops the connection (path /half.zip, /half.tgz, /ca/...); /good.zip is whole.
func brokenHTTP() string {
	if brokenSrv != nil {
		return brokenSrv.URL
	}
	var zb bytes.Buffer
	zw := zip.NewWriter(&zb)
	for i := 0; i < 40; i++ {
		w, _ := zw.Create(fmt.Sprintf("f%02d", i))
		w.Write(bytes.Repeat([]byte{byte(i), 7, 9}, 900))
	}
	zw.Close()
	body := zb.Bytes()
	brokenSrv = httptest.NewServer(http.HandlerFunc(func(w http.ResponseWriter, r *http.Request) {
		// status codes a warehouse may answer with: /s<code>/...
		if i := strings.Index(r.URL.Path, "/s"); i >= 0 && len(r.URL.Path) >= i+5 {
			var code int
			if _, e := fmt.Sscanf(r.URL.Path[i+2:i+5], "%d", &code); e == nil && code >= 200 && code < 600 {
				if code/100 == 3 {
					w.Header().Set("Location", r.URL.Path) // a redirect onto itself
				}
				w.WriteHeader(code)
				return
			}
		}
		if strings.HasSuffix(r.URL.Path, "/good.zip") {
			w.Write(body)
			return
		}
		w.Header().Set("Content-Length", fmt.Sprint(len(body)))
		w.WriteHeader(200)
		w.Write(body[:len(body)/2])
		if f, ok := w.(http.Flusher); ok {
			f.Flush()
		}
		if hj, ok := w.(http.Hijacker); ok {
			if conn, _, err := hj.Hijack(); err == nil {
				conn.Close()
			}
		}
	}))
	return brokenSrv.URL
}

// cliCancel: the user interrupts (SIGINT) a running operation — a scan / unpack / mirror whose warehouse is still
// sending — and the transfer then goes on: the process ends within seconds, with an exit code of the documented table
// (the operation was cancelled, or it completed), never hanging with nothing said. Recipe: "cli-cancel <scan|unpack|mirror> <fmt>".
func cliCancel(c *Ctx, op string) {
	c.Begin(op)
	f := strings.Fields(op)
	what, format := f[1], f[2]
	bin := os.Getenv("RIO_BIN")
	c.EmitR(op, "skip", "skip")
	if bin == "" {
		return
	}
	caseCounter++
	base := filepath.Join(c.Work, fmt.Sprintf("clc%d", caseCounter))
	defer rmrf(base)
	os.MkdirAll(filepath.Join(base, "src", "d"), 0755)
	os.MkdirAll(filepath.Join(base, "wh"), 0755)
	os.MkdirAll(filepath.Join(base, "wh2"), 0755)
	os.WriteFile(filepath.Join(base, "src", "d", "f"), bytes.Repeat([]byte("cancel me "), 5000), 0644)
	env := append(os.Environ(), "RIO_CACHE="+filepath.Join(base, "cache"), "RIO_BASE="+filepath.Join(base, "riobase"))
	pk := exec.Command(bin, "pack", "tar", filepath.Join(base, "src"), "--target=file://"+filepath.Join(base, "wh", "ware.tgz"))
	pk.Env = env
	out, err := pk.Output()
	id := strings.TrimSpace(string(out))
	ware, _ := os.ReadFile(filepath.Join(base, "wh", "ware.tgz"))
	if err != nil || id == "" || len(ware) < 100 {
		return
	}
	release := make(chan struct{})
	started := make(chan struct{}, 4)
	nreq := 0
	if len(f) > 3 && f[3] == "mid" {
		nreq = 1
	}
	srv := httptest.NewServer(http.HandlerFunc(func(w http.ResponseWriter, r *http.Request) {
		// odd requests: the warehouse takes its time before it says anything; even ones: it stalls in mid-transfer
		nreq++
		w.Header().Set("Content-Length", fmt.Sprint(len(ware)))
		if nreq%2 == 0 {
			w.Write(ware[:50])
			if fl, ok := w.(http.Flusher); ok {
				fl.Flush()
			}
		}
		started <- struct{}{}
		<-release
		if nreq%2 == 0 {
			w.Write(ware[50:])
		} else {
			w.Write(ware)
		}
	}))
	defer srv.Close()
	var args []string
	switch what {
	case "scan":
		args = []string{"--format=" + format, "scan", "tar", "--source=" + srv.URL + "/ware.tgz"}
	case "unpack":
		args = []string{"--format=" + format, "unpack", id, filepath.Join(base, "dst"), "--placer=direct", "--source=" + srv.URL + "/ware.tgz"}
	case "mirror":
		args = []string{"--format=" + format, "mirror", id, "--target=ca+file://" + filepath.Join(base, "wh2"), "--source=" + srv.URL + "/ware.tgz"}
	}
	cmd := exec.Command(bin, args...)
	cmd.Env = env
	var so, se bytes.Buffer
	cmd.Stdout, cmd.Stderr = &so, &se
	if cmd.Start() != nil {
		close(release)
		return
	}
	select {
	case <-started:
	case <-time.After(5 * time.Second):
	}
	time.Sleep(200 * time.Millisecond)
	cmd.Process.Signal(syscall.SIGINT)
	time.Sleep(300 * time.Millisecond)
	close(release)
	done := make(chan error, 1)
	go func() { done <- cmd.Wait() }()
	select {
	case <-done:
		code := cmd.ProcessState.ExitCode()
		c.H(fmt.Sprintf("cli-cancel:%s:%s:exit=%d", what, format, code))
		if code < 0 || code > 14 {
			c.PropFail("cli-undocumented-exit", fmt.Sprintf("an interrupted %s exited with code %d", what, code), op)
		}
	case <-time.After(6 * time.Second):
		cmd.Process.Kill()
		<-done
		c.H("cli-cancel:" + what + ":" + format + ":hang")
		c.PropFail("cli-no-result", fmt.Sprintf("rio %s was interrupted (SIGINT) while its warehouse was still sending; the transfer then completed, and six seconds later the process is still there, having said nothing (stdout %q, stderr %q)", what, so.String(), se.String()), op)
	}
	c.Distinct(op)
}

func cliEngine(c *Ctx) {
	if ls := replayLines(); ls != nil {
		for _, op := range ls {
			if strings.HasPrefix(op, "cli ") {
				cliExec(c, op)
			} else if strings.HasPrefix(op, "cli-cancel ") {
				cliCancel(c, op)
			}
		}
		return
	}
	for _, w := range []string{"scan dumb", "unpack dumb mid", "mirror json", "scan json mid", "unpack json", "mirror dumb mid"} {
		cliCancel(c, "cli-cancel "+w)
	}
	mk := func(args ...string) string {
		var hs []string
		for _, a := range args {
			hs = append(hs, hx(a))
		}
		return "cli " + strings.Join(hs, " ")
	}
	vecs := [][]string{
		{}, {"bogus"}, {"pack"}, {"pack", "tar"}, {"pack", "nosuchformat", "@W@/src"}, {"pack", "tar", "@W@/nonexistent"},
		{"pack", "tar", "src"}, {"pack", "tar", "@W@/src", "--filters", "uid=abc"}, {"pack", "tar", "@W@/src", "--filters", "nonsense"},
		{"pack", "tar", "@W@/src", "--filters", "dev=ignore"}, {"pack", "tar", "@W@/src", "--filters", "setid=reject,dev=reject"},
		{"pack", "tar", "@W@/src", "--target=ftp://x/y"}, {"pack", "tar", "@W@/src", "--target=nocolon"}, {"pack", "tar", "@W@/src", "--target=ca+file://@W@/nowarehouse"},
		{"pack", "tar", "@W@/src", "--target=file://@W@/wh/sub/dir/ware.tgz"}, {"pack", "zip", "@W@/src"}, {"pack", "tar", "@W@/src/d/f"},
		{"unpack", "nocolonid", "@W@/dst"}, {"unpack", "", "@W@/dst"}, {"unpack", "tar:", "@W@/dst"}, {"unpack", "weird:abc", "@W@/dst"},
		{"unpack", "tar:abcdefghijklmnop", "@W@/dst"}, {"unpack", "tar:abcdefghijklmnop", "@W@/dst", "--source=ca+file://@W@/wh"},
		{"unpack", "@GOODID@", "@W@/dst", "--source=ca+file://@W@/wh"}, {"unpack", "@GOODID@", "@W@/dst", "--source=ca+file://@W@/wh", "--placer=copy"},
		{"unpack", "@GOODID@", "@W@/dst", "--source=ca+file://@W@/wh", "--placer=none"}, {"unpack", "@GOODID@", "@W@/dst", "--source=ca+file://@W@/wh", "--placer=bogus"},
		{"unpack", "@GOODID@", "@W@/dst", "--source=ca+file://@W@/wh", "--filters", "mtime=now"}, {"unpack", "@GOODID@", "@W@/dst", "--source=ca+file://@W@/wh", "--filters", "uid=mine,gid=mine"},
		{"unpack", "@GOODID@", "@W@/src/d/f/under-a-file", "--source=ca+file://@W@/wh"}, {"unpack", "@GOODID@", "relative/dst", "--source=ca+file://@W@/wh"},
		{"unpack", "@GOODID@", "@W@/dst", "--source=http://127.0.0.1:1/nothing"}, {"unpack", "@GOODID@", "@W@/dst", "--source=:%zz"},
		{"unpack", "zip:abcdefgh", "@W@/dst", "--source=ca+file://@W@/wh"}, {"unpack", "git:0123456789012345678901234567890123456789", "@W@/dst", "--source=file://@W@/norepo/.git"},
		{"scan", "tar"}, {"scan", "tar", "--source=file://@W@/nofile"}, {"scan", "tar", "--source=ca+file://@W@/wh"}, {"scan", "zip", "--source=file://@W@/src/d/f"},
		{"scan", "tar", "--source=file://@W@/src/d/f"}, {"scan", "nosuch", "--source=file://@W@/src/d/f"}, {"scan", "git", "--source=file://@W@/src"},
		{"mirror", "@GOODID@"}, {"mirror", "@GOODID@", "--target=ca+file://@W@/wh2"}, {"mirror", "@GOODID@", "--target=ca+file://@W@/wh", "--source=ca+file://@W@/wh"},
		{"mirror", "nocolon", "--target=ca+file://@W@/wh"}, {"mirror", "@GOODID@", "--target=http://127.0.0.1:1/x", "--source=ca+file://@W@/wh"},
		{"mirror", "tar:zzzzzzzzzz", "--target=ca+file://@W@/wh", "--source=ca+file://@W@/wh"}, {"mirror", "git:abcd", "--target=ca+file://@W@/wh"},
		// a directory whose listing names something that is gone by the time it is stat'ed (the descriptor used for the listing)
		{"pack", "tar", "/proc/self/fd"}, {"--format=json", "pack", "tar", "/proc/self/fd"}, {"pack", "zip", "/proc/self/fd"}, {"pack", "tar", "/proc/self/task"},
		{"--format=json", "unpack", "nocolonid", "@W@/dst"}, {"--format=json", "pack", "tar", "@W@/src"}, {"--format=bogus", "pack", "tar", "@W@/src"},
	}
	// warehouse addresses on which stat fails with something other than ENOENT: through a regular file (ENOTDIR, one and
	// two segments below it), through a symlink loop (ELOOP), with an over-long segment (ENAMETOOLONG) — every command
	long := strings.Repeat("n", 300)
	for _, bad := range []string{"@W@/src/d/f/wh", "@W@/src/d/f/sub/ware.tgz", "@W@/src/d/f/a/b/c", "@W@/loop/wh", "@W@/loop/sub/ware.tgz", "@W@/" + long + "/wh", "@W@/" + long + "/sub/ware.tgz"} {
		for _, scheme := range []string{"file://", "ca+file://"} {
			vecs = append(vecs,
				[]string{"scan", "tar", "--source=" + scheme + bad},
				[]string{"unpack", "@GOODID@", "@W@/dst", "--source=" + scheme + bad},
				[]string{"--format=json", "unpack", "@GOODID@", "@W@/dst", "--source=" + scheme + bad, "--source=ca+file://@W@/wh"},
				[]string{"mirror", "@GOODID@", "--target=" + scheme + bad, "--source=ca+file://@W@/wh"},
				[]string{"pack", "tar", "@W@/src", "--target=" + scheme + bad})
		}
	}
	// ware ids whose hash part is not a plain name (it becomes path segments of a content-addressed warehouse), and
	// filesets holding sockets / fifos / device nodes
	for _, id := range []string{"tar:/abcdefgh", "tar:../../../etc/passwd", "zip:/a", "tar:abc/def/ghi/jkl", "tar:..", "tar:.", "zip:ab/../../cd"} {
		vecs = append(vecs,
			[]string{"unpack", id, "@W@/dst", "--source=ca+file://@W@/wh"}, []string{"unpack", id, "@W@/dst", "--source=file://@W@/wh/x.tgz"},
			[]string{"mirror", id, "--target=ca+file://@W@/wh2", "--source=ca+file://@W@/wh"}, []string{"--format=json", "unpack", id, "@W@/dst", "--source=ca+file://@W@/wh", "--placer=none"})
	}
	for _, fm := range []string{"tar", "zip"} {
		vecs = append(vecs, []string{"pack", fm, "@W@/special"}, []string{"pack", fm, "@W@/onlysock"}, []string{"pack", fm, "@W@/special", "--target=ca+file://@W@/wh"},
			[]string{"--format=json", "pack", fm, "@W@/onlysock"}, []string{"pack", fm, "@W@/special/sock"}, []string{"pack", fm, "@W@/special/fifo"})
	}
	// transfers over HTTP that break off mid-body: every command, zip and tar, mono and content-addressed addresses
	zid := "zip:3vuuiiEUjwwYaRFuLUXh9Sb3DkTFP4RCnCmRmdEDBT3GZ9mP5ShzmUgGm4hgYEUDjb"
	tid := "tar:3vuuiiEUjwwYaRFuLUXh9Sb3DkTFP4RCnCmRmdEDBT3GZ9mP5ShzmUgGm4hgYEUDjb"
	vecs = append(vecs,
		[]string{"scan", "zip", "--source=@HTTP@/half.zip"}, []string{"--format=json", "scan", "zip", "--source=@HTTP@/half.zip"},
		[]string{"scan", "tar", "--source=@HTTP@/half.tgz"}, []string{"scan", "zip", "--source=@HTTP@/good.zip"},
		[]string{"unpack", zid, "@W@/dst", "--source=@HTTP@/half.zip", "--placer=direct"}, []string{"unpack", zid, "@W@/dst", "--source=ca+@HTTP@/ca"},
		[]string{"unpack", tid, "@W@/dst", "--source=@HTTP@/half.tgz"}, []string{"unpack", tid, "@W@/dst", "--source=ca+@HTTP@/ca", "--placer=copy"},
		[]string{"mirror", zid, "--target=ca+file://@W@/wh", "--source=@HTTP@/half.zip"}, []string{"mirror", tid, "--target=ca+file://@W@/wh", "--source=ca+@HTTP@/ca"})
	for _, code := range []string{"401", "403", "402", "407", "410", "418", "429", "451", "500", "502", "301", "302", "204", "206"} {
		vecs = append(vecs, []string{"scan", "tar", "--source=@HTTP@/s" + code + "/w.tgz"}, []string{"unpack", tid, "@W@/dst", "--source=ca+@HTTP@/s" + code},
			[]string{"--format=json", "mirror", zid, "--target=ca+file://@W@/wh", "--source=@HTTP@/s" + code + "/w.zip"})
	}
	// the parser's own commands and flags; filesets whose root (or every entry) a filter ejects
	vecs = append(vecs, []string{"help"}, []string{"help", "pack"}, []string{"help", "unpack", "x"}, []string{"help", "nosuch"}, []string{"--help"}, []string{"pack", "--help"},
		[]string{"--help-long"}, []string{"--help-man"}, []string{"--format=json", "help"}, []string{"--version"}, []string{"help", "--format=json", "mirror"},
		[]string{"--completion-bash"}, []string{"--completion-script-bash"}, []string{"--completion-script-zsh"}, []string{"--completion-bash", "pack"})
	for _, fm := range []string{"tar", "zip"} {
		for _, fl := range []string{"dev=ignore", "dev=reject", "dev=keep", "uid=1,gid=1,mtime=@5,sticky=ignore,setid=ignore,dev=ignore"} {
			vecs = append(vecs, []string{"pack", fm, "/dev/null", "--filters", fl}, []string{"pack", fm, "@W@/special/chr", "--filters", fl},
				[]string{"--format=json", "pack", fm, "/dev/null", "--filters", fl, "--target=ca+file://@W@/wh"}, []string{"pack", fm, "@W@/special/fifo", "--filters", fl})
		}
	}
	// relative paths and addresses when the working directory is gone
	vecs = append(vecs, []string{"@GONE@", "scan", "tar", "--source=file://rel/x.tar"}, []string{"@GONE@", "scan", "zip", "--source=ca+file://relwh"},
		[]string{"@GONE@", "unpack", tid, "rel/target", "--source=ca+file://relwh"}, []string{"@GONE@", "unpack", tid, "rel/target", "--source=ca+file://@W@/wh", "--placer=direct"},
		[]string{"@GONE@", "--format=json", "unpack", "@GOODID@", "rel/target", "--source=ca+file://@W@/wh", "--placer=direct"},
		[]string{"@GONE@", "pack", "tar", "."}, []string{"@GONE@", "pack", "tar", "@W@/src", "--target=file://rel/t.tgz"}, []string{"@GONE@", "pack", "zip", "@W@/src", "--target=ca+file://relwh"},
		[]string{"@GONE@", "mirror", "@GOODID@", "--target=ca+file://relwh", "--source=ca+file://@W@/wh"}, []string{"@GONE@", "mirror", "@GOODID@", "--target=ca+file://@W@/wh2", "--source=file://rel/ware"})
	// relative RIO_* settings with the working directory gone; targets that are symlinks; sources below the target;
	// addresses without "//" (opaque URLs) from inside the fileset
	vecs = append(vecs, []string{"@ENV:RIO_BASE=relbase@", "@GONE@", "unpack", "@GOODID@", "@W@/dst", "--source=ca+file://@W@/wh"},
		[]string{"@ENV:RIO_CACHE=relcache@", "@GONE@", "unpack", "@GOODID@", "@W@/dst", "--source=ca+file://@W@/wh", "--placer=none"},
		[]string{"@ENV:RIO_MOUNT_WORKDIR=relwork@", "@GONE@", "unpack", "@GOODID@", "@W@/dst", "--source=ca+file://@W@/wh", "--placer=mount"},
		[]string{"@ENV:RIO_BASE=relbase@", "@GONE@", "scan", "tar", "--source=file://@W@/nonexistent.tgz"})
	for _, pl := range []string{"direct", "copy", "none"} {
		vecs = append(vecs, []string{"unpack", "--help", "@GOODID@", "@W@/precious-dir", "--source=ca+file://@W@/wh", "--placer=" + pl},
			[]string{"unpack", "@GOODID@", "@W@/precious-dir", "--help", "--source=ca+file://@W@/nowhere"},
			[]string{"unpack", "@GOODID@", "@W@/tlink", "--source=ca+file://@W@/wh", "--placer=" + pl},
			[]string{"unpack", "@GOODID@", "@W@/tlink/", "--source=ca+file://@W@/wh", "--placer=" + pl},
			[]string{"unpack", "@GOODID@", "@W@/tlink/.", "--source=ca+file://@W@/wh", "--placer=" + pl},
			[]string{"unpack", "@GOODID@", "@W@", "--source=ca+file://@W@/wh", "--placer=" + pl},
			[]string{"unpack", "@GOODID@", "@W@/wh/..", "--source=ca+file://@W@/wh", "--placer=" + pl},
			[]string{"@CD:wh@", "unpack", "@GOODID@", ".", "--source=ca+file://.", "--placer=" + pl},
			[]string{"unpack", "@GOODID@", "@W@/tgtreal", "--source=ca+file://@W@/viewlink", "--placer=" + pl},
			[]string{"unpack", "@GOODID@", "@WALIAS@/tgtreal", "--source=ca+file://@W@/tgtreal/wh4", "--placer=" + pl})
	}
	for _, fm := range []string{"tar", "zip"} {
		vecs = append(vecs, []string{"@CD:src@", "pack", fm, ".", "--target=ca+file:../wh"}, []string{"@CD:src@", "pack", fm, ".", "--target=file:../wh/mono.bin"},
			[]string{"@CD:src@", "pack", fm, ".", "--target=ca+file:"}, []string{"@CD:src@", "mirror", "@GOODID@", "--target=ca+file:../wh2", "--source=ca+file://@W@/wh"},
			[]string{"@CD:src@", "scan", fm, "--source=file:../wh/x"})
	}
	for _, v := range vecs {
		cliExec(c, mk(v...))
	}
	libPlacementModes(c)
	if brokenSrv != nil {
		brokenSrv.Close()
		brokenSrv = nil
	}
}

// libPlacementModes: the library entry points take any rio.PlacementMode (a string type): every value is answered with a
// categorized error or a success, never a panic.
func libPlacementModes(c *Ctx) {
	caseCounter++
	base := filepath.Join(c.Work, fmt.Sprintf("lpm%d", caseCounter))
	defer rmrf(base)
	src, wh := filepath.Join(base, "src"), filepath.Join(base, "wh")
	os.MkdirAll(src, 0755)
	os.MkdirAll(wh, 0755)
	os.WriteFile(filepath.Join(src, "f"), []byte("x"), 0644)
	os.Setenv("RIO_CACHE", filepath.Join(base, "cache"))
	os.Setenv("RIO_BASE", filepath.Join(base, "riobase"))
	ctx := context.Background()
	for _, fm := range []string{"tar", "zip"} {
		fn := funcsFor(fm)
		id, err := fn.pack(ctx, api.PackType(fm), src, api.MustParseFilesetPackFilter(losslessPackStr), whAddr("ca", wh), rio.Monitor{})
		if err != nil {
			continue
		}
		for _, pm := range []rio.PlacementMode{rio.Placement_Copy, rio.Placement_Mount, rio.Placement_Direct, "", "bogus", "none "} {
			op := fmt.Sprintf("lib-placement %s %q", fm, string(pm))
			_, e1, p1 := safeCall(func() (api.WareID, error) {
				return fn.scan(ctx, api.PackType(fm), api.MustParseFilesetUnpackFilter(losslessUnpackStr), pm, api.WarehouseLocation("file://"+storedWarePath("ca", wh, id)), rio.Monitor{})
			})
			if p1 != "" {
				c.PropFail("panic-scan", fmt.Sprintf("Scan with placement mode %q panicked: %s", string(pm), p1), op)
			} else if e1 != nil && strings.HasPrefix(catOf(e1), "uncategorized") {
				c.PropFail("uncategorized-error", fmt.Sprintf("Scan with placement mode %q: %v", string(pm), e1), op)
			}
			if pm == rio.Placement_Mount {
				continue // a real mount: covered elsewhere, and left mounted here
			}
			_, e2, p2 := safeCall(func() (api.WareID, error) {
				return fn.unpack(ctx, id, filepath.Join(base, "dst-"+fm+"-"+fmt.Sprint(len(pm))), api.MustParseFilesetUnpackFilter(losslessUnpackStr), pm, []api.WarehouseLocation{whAddr("ca", wh)}, rio.Monitor{})
			})
			if p2 != "" {
				c.PropFail("panic-unpack", fmt.Sprintf("Unpack with placement mode %q panicked: %s", string(pm), p2), op)
			} else if e2 != nil && strings.HasPrefix(catOf(e2), "uncategorized") {
				c.PropFail("uncategorized-error", fmt.Sprintf("Unpack with placement mode %q: %v", string(pm), e2), op)
			}
			for _, dest := range []string{"rel/path", "", "-", ".", "./x"} {
				if pm == rio.Placement_None || pm == rio.Placement_Mount {
					continue
				}
				_, e3, p3 := safeCall(func() (api.WareID, error) {
					return fn.unpack(ctx, id, dest, api.MustParseFilesetUnpackFilter(losslessUnpackStr), pm, []api.WarehouseLocation{whAddr("ca", wh)}, rio.Monitor{})
				})
				if p3 != "" {
					c.PropFail("panic-unpack", fmt.Sprintf("Unpack (placement %q) with the destination %q panicked: %s", string(pm), dest, p3), op)
				} else if e3 == nil {
					os.RemoveAll("rel")
					os.RemoveAll("x")
				}
			}
			c.H("lib-placement:" + catOf(e1) + ":" + catOf(e2))
			c.EmitR(op, "skip", "skip")
		}
	}
}
