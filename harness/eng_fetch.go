package main

import (
	"archive/tar"
	"archive/zip"
	"bytes"
	"compress/flate"
	"compress/gzip"
	"context"
	"fmt"
	"hash/crc32"
	"io"
	"net/http"
	"net/http/httptest"
	"os"
	"path/filepath"
	"strings"
	"sync"
	"syscall"
	"time"

	api "github.com/polydawn/go-timeless-api"
	"github.com/polydawn/go-timeless-api/rio"
	"github.com/polydawn/refmt/misc"
	tartrans "github.com/polydawn/rio/transmat/tar"
)

func init() { engines["fetch"] = fetchEngine }

func gunzip(b []byte) ([]byte, error) {
	zr, err := gzip.NewReader(bytes.NewReader(b))
	if err != nil {
		return nil, err
	}
	return io.ReadAll(zr)
}
func gz(b []byte) []byte {
	var buf bytes.Buffer
	w := gzip.NewWriter(&buf)
	w.Write(b)
	w.Close()
	return buf.Bytes()
}

// retar re-encodes a tar stream after editing its entry list.
func retar(raw []byte, edit func(hs []*tar.Header, bodies [][]byte) ([]*tar.Header, [][]byte)) []byte {
	tr := tar.NewReader(bytes.NewReader(raw))
	var hs []*tar.Header
	var bodies [][]byte
	for {
		h, err := tr.Next()
		if err != nil {
			break
		}
		b, _ := io.ReadAll(tr)
		hs = append(hs, h)
		bodies = append(bodies, b)
	}
	hs, bodies = edit(hs, bodies)
	var buf bytes.Buffer
	tw := tar.NewWriter(&buf)
	for i, h := range hs {
		h.Size = int64(len(bodies[i]))
		h.Format = tar.FormatPAX
		if err := tw.WriteHeader(h); err != nil {
			continue
		}
		tw.Write(bodies[i])
	}
	tw.Close()
	return buf.Bytes()
}

// alterWare applies the mutation named by `mut` to the stored (gzip) ware; returns the new stored bytes.
func alterWare(c *Ctx, stored []byte, mut string, other []byte) []byte {
	raw, err := gunzip(stored)
	if err != nil {
		return stored
	}
	f := strings.Split(mut, ":")
	arg := func(i int) int {
		n := 0
		if len(f) > i {
			fmt.Sscan(f[i], &n)
		}
		return n
	}
	switch f[0] {
	case "none":
		return stored
	case "recompress": // same content, different compressed bytes
		var buf bytes.Buffer
		w, _ := gzip.NewWriterLevel(&buf, gzip.BestSpeed)
		w.Write(raw)
		w.Close()
		return buf.Bytes()
	case "plain": // stored uncompressed
		return raw
	case "pad":
		return gz(append(append([]byte(nil), raw...), make([]byte, 512*(1+arg(1)%4))...))
	case "flip":
		x := append([]byte(nil), raw...)
		if len(x) > 0 {
			x[arg(1)%len(x)] ^= byte(1 << uint(arg(2)%8))
		}
		return gz(x)
	case "trunc":
		return gz(raw[:arg(1)%(len(raw)+1)])
	case "truncgz": // truncate the compressed bytes
		return stored[:arg(1)%(len(stored)+1)]
	case "substitute":
		return other
	case "dropentry":
		return gz(retar(raw, func(hs []*tar.Header, bs [][]byte) ([]*tar.Header, [][]byte) {
			if len(hs) < 2 {
				return hs, bs
			}
			i := 1 + arg(1)%(len(hs)-1)
			return append(hs[:i:i], hs[i+1:]...), append(bs[:i:i], bs[i+1:]...)
		}))
	case "addentry":
		return gz(retar(raw, func(hs []*tar.Header, bs [][]byte) ([]*tar.Header, [][]byte) {
			h := &tar.Header{Name: "./zz-added", Typeflag: tar.TypeReg, Mode: 0644, ModTime: hs[0].ModTime}
			return append(hs, h), append(bs, []byte("extra"))
		}))
	case "addabs": // an added entry with an absolute name (regular file, directory or symlink): no fileset has such an entry
		return gz(retar(raw, func(hs []*tar.Header, bs [][]byte) ([]*tar.Header, [][]byte) {
			h := &tar.Header{Name: "/etc/zz-abs", Typeflag: tar.TypeReg, Mode: 0644, ModTime: hs[0].ModTime}
			body := []byte("smuggled")
			switch arg(1) % 3 {
			case 1:
				h, body = &tar.Header{Name: "/zz-abs-dir/", Typeflag: tar.TypeDir, Mode: 0755, ModTime: hs[0].ModTime}, nil
			case 2:
				h, body = &tar.Header{Name: "/zz-abs-link", Typeflag: tar.TypeSymlink, Linkname: "/etc/passwd", Mode: 0777, ModTime: hs[0].ModTime}, nil
			}
			if arg(2)%2 == 0 {
				return append(hs, h), append(bs, body)
			}
			return append([]*tar.Header{hs[0], h}, hs[1:]...), append([][]byte{bs[0], body}, bs[1:]...)
		}))
	case "renamebs": // an entry renamed so that its name gains a prefix ending in a backslash (an ordinary byte): another fileset
		return gz(retar(raw, func(hs []*tar.Header, bs [][]byte) ([]*tar.Header, [][]byte) {
			for k := range hs {
				j := (k + arg(1)) % len(hs)
				nm := strings.TrimSuffix(hs[j].Name, "/")
				if i := strings.LastIndex(nm, "/"); nm != "." && nm != "" && (hs[j].Typeflag == tar.TypeReg || hs[j].Typeflag == tar.TypeDir) {
					hs[j].Name = nm[:i+1] + "l\\" + nm[i+1:]
					if hs[j].Typeflag == tar.TypeDir {
						// children keep their old parent name: only leaf directories are renamed
						leaf := true
						for _, o := range hs {
							if strings.HasPrefix(o.Name, nm+"/") && o != hs[j] {
								leaf = false
							}
						}
						if !leaf {
							hs[j].Name = nm + "/"
							continue
						}
						hs[j].Name += "/"
					}
					return hs, bs
				}
			}
			return hs, bs
		}))
	case "twomember", "twomember-same":
		// a two-member gzip (RFC 1952: the stream is the concatenation): member 1 = the original entries without the
		// end-of-archive blocks, member 2 = an added entry (or nothing) + end-of-archive
		body := raw
		for len(body) >= 512 && bytes.Equal(body[len(body)-512:], make([]byte, 512)) {
			body = body[:len(body)-512]
		}
		var m2 bytes.Buffer
		tw := tar.NewWriter(&m2)
		if f[0] == "twomember" {
			tw.WriteHeader(&tar.Header{Name: "./zz-smuggled", Typeflag: tar.TypeReg, Mode: 0644, Size: 5, ModTime: time.Unix(1e9, 0), Format: tar.FormatPAX})
			tw.Write([]byte("extra"))
		}
		tw.Close()
		return append(gz(body), gz(m2.Bytes())...)
	case "addrootfile": // an extra entry for the root itself: a regular file (or symlink) named "." ahead of the real root directory
		return gz(retar(raw, func(hs []*tar.Header, bs [][]byte) ([]*tar.Header, [][]byte) {
			h := &tar.Header{Name: ".", Typeflag: tar.TypeReg, Mode: 0644, ModTime: hs[0].ModTime}
			if arg(1)%2 == 1 {
				h = &tar.Header{Name: ".", Typeflag: tar.TypeSymlink, Linkname: "/etc", Mode: 0777, ModTime: hs[0].ModTime}
				return append([]*tar.Header{h}, hs...), append([][]byte{nil}, bs...)
			}
			return append([]*tar.Header{h}, hs...), append([][]byte{[]byte("bogus")}, bs...)
		}))
	case "addlink": // a link name written into the header of a regular file (or directory) entry: same length, still parses
		return gz(retar(raw, func(hs []*tar.Header, bs [][]byte) ([]*tar.Header, [][]byte) {
			for i := range hs {
				j := (i + arg(1)) % len(hs)
				if hs[j].Typeflag == tar.TypeReg || hs[j].Typeflag == tar.TypeDir {
					hs[j].Linkname = "/etc/shadow"
					return hs, bs
				}
			}
			return hs, bs
		}))
	case "adddir": // an explicit entry for an already described directory, with other attributes
		return gz(retar(raw, func(hs []*tar.Header, bs [][]byte) ([]*tar.Header, [][]byte) {
			h := *hs[0]
			h.Mode ^= 0070
			h.Uid += 7
			return append(hs, &h), append(bs, nil)
		}))
	case "modattr":
		return gz(retar(raw, func(hs []*tar.Header, bs [][]byte) ([]*tar.Header, [][]byte) {
			i := arg(1) % len(hs)
			for k := 0; k < len(hs); k++ { // pick a file or dir entry: only those are hashed
				j := (i + k) % len(hs)
				if hs[j].Typeflag == tar.TypeReg || hs[j].Typeflag == tar.TypeDir {
					i = j
					break
				}
			}
			switch arg(2) % 5 {
			case 4: // a sub-second mtime (a PAX 'mtime' record): part of the hashed metadata
				hs[i].ModTime = hs[i].ModTime.Add(time.Duration(1 + arg(1)%999999999))
				hs[i].Format = tar.FormatPAX
			case 0:
				hs[i].Mode ^= 0100
			case 1:
				hs[i].Uid++
			case 2:
				hs[i].ModTime = hs[i].ModTime.Add(1e9)
			case 3:
				hs[i].Gid += 3
			}
			return hs, bs
		}))
	case "modcontent":
		return gz(retar(raw, func(hs []*tar.Header, bs [][]byte) ([]*tar.Header, [][]byte) {
			for i := range hs {
				if hs[i].Typeflag == tar.TypeReg {
					bs[i] = append(append([]byte(nil), bs[i]...), 'X')
					return hs, bs
				}
			}
			hs[0].Mode ^= 0001
			return hs, bs
		}))
	case "reorder":
		return gz(retar(raw, func(hs []*tar.Header, bs [][]byte) ([]*tar.Header, [][]byte) {
			for i, j := 0, len(hs)-1; i < j; i, j = i+1, j-1 {
				hs[i], hs[j] = hs[j], hs[i]
				bs[i], bs[j] = bs[j], bs[i]
			}
			return hs, bs
		}))
	}
	return stored
}

// decodeStored renders the stored bytes as the model's view: head, fin, header tokens (after decompression).
func decodeStored(stored []byte) (head, fin, toks string) {
	h := stored
	if len(h) > 10 {
		h = h[:10]
	}
	head = hx(string(h))
	if len(stored) >= 3 && stored[0] == 0x1f && stored[1] == 0x8b && stored[2] == 0x08 {
		zr, err := gzip.NewReader(bytes.NewReader(stored))
		if err != nil {
			return head, "corrupt", "-"
		}
		toks, fin = decodeReaderForModel(zr) // the tar reader sees the gzip reader's errors, as in rio
		return head, fin, toks
	}
	toks, fin = decodeForModel(stored)
	// a truncated gzip stream surfaces as a read error in the tar reader: archive/tar sees unexpected EOF
	return head, fin, toks
}

func fetchExec(c *Ctx, op string) {
	f := strings.Fields(op)
	whKind, mode, mut := f[2], f[3], f[4]
	ufStr := losslessUnpackStr
	warm := false
	if strings.HasSuffix(mode, "+warm") { // the fileset cache already holds the (good) ware when the stored bytes are altered
		mode = strings.TrimSuffix(mode, "+warm")
		warm = true
	}
	if strings.HasSuffix(mode, "+alt") { // an altering unpack filter: the comparison must still be on the prefilter hash
		mode = strings.TrimSuffix(mode, "+alt")
		ufStr = "uid=7,gid=8,mtime=@1234,sticky=follow,setid=follow,dev=follow"
	}
	fsx := parseFilesetTok(f[5])
	caseCounter++
	base := filepath.Join(c.Work, fmt.Sprintf("fe%d", caseCounter))
	defer rmrf(base)
	src, dst, whDir, wh2, cache := filepath.Join(base, "src"), filepath.Join(base, "dst"), filepath.Join(base, "wh"), filepath.Join(base, "wh2"), filepath.Join(base, "cache")
	os.MkdirAll(whDir, 0755)
	os.MkdirAll(wh2, 0755)
	os.Setenv("RIO_CACHE", cache)
	os.Setenv("RIO_BASE", filepath.Join(base, "riobase"))
	ctx := context.Background()
	pf := api.MustParseFilesetPackFilter(losslessPackStr)
	uf := api.MustParseFilesetUnpackFilter(ufStr)
	if err := Materialize(fsx, src, nil); err != nil {
		c.EmitR(op, "skip", "skip")
		return
	}
	id, err := tartrans.Pack(ctx, "tar", src, pf, whAddr(whKind, whDir), rio.Monitor{})
	if err != nil {
		c.EmitR(op, "skip", "skip")
		return
	}
	// another valid ware, for substitution
	os.WriteFile(filepath.Join(src, "zz-other"), []byte("other"), 0644)
	otherDir := filepath.Join(base, "whother")
	os.MkdirAll(otherDir, 0755)
	oid, _ := tartrans.Pack(ctx, "tar", src, pf, whAddr("file", otherDir), rio.Monitor{})
	other, _ := os.ReadFile(storedWarePath("file", otherDir, oid))
	warePath := storedWarePath(whKind, whDir, id)
	stored, _ := os.ReadFile(warePath)
	if warm {
		tartrans.Unpack(ctx, id, "-", api.MustParseFilesetUnpackFilter(losslessUnpackStr), rio.Placement_None, []api.WarehouseLocation{whAddr(whKind, whDir)}, rio.Monitor{})
	}
	altered := alterWare(c, stored, mut, other)
	os.WriteFile(warePath, altered, 0644)
	head, fin, toks := decodeStored(altered)
	// does the altered ware still encode the requested fileset? (independent: re-scan by reference hash of decoded entries is the model's job;
	// the oracle here only needs "is it byte-for-byte content-preserving")
	preserving := mut == "none" || mut == "recompress" || mut == "plain" || strings.HasPrefix(mut, "pad") || mut == "reorder"
	// ---- unpack
	id3, err3, pan3 := safeCall(func() (api.WareID, error) {
		return tartrans.Unpack(ctx, id, dst, uf, rio.PlacementMode(mode), []api.WarehouseLocation{whAddr(whKind, whDir)}, rio.Monitor{})
	})
	res := resTok(id3, err3, pan3)
	modelOp := fmt.Sprintf("fetch tar %s %s %d %d %s %s %s", id.Hash, filterInts(uf), os.Getuid(), os.Getgid(), head, fin, toks)
	if warm {
		c.EmitR(op, "skip", "skip")
	} else {
		c.EmitR(op, modelOp, res)
	}
	shelf := filepath.Join(cache, "tar", "fileset", id.Hash[0:3], id.Hash[3:6], id.Hash)
	_, shelfErr := os.Lstat(shelf)
	if sh, _ := filepath.Glob(filepath.Join(cache, "tar", "fileset", "*", "*", "*")); len(sh) > 0 {
		shelfErr = nil // any shelf at all (an altering filter shelves under the filtered hash)
	}
	switch {
	case pan3 != "":
		c.PropFail("fetch-panic", "unpack of an altered ware panicked: "+pan3, op)
	case warm:
		// a cache hit: the shelf holds the verified fileset, the warehouse is not read at all
	case preserving:
		if (ufStr == losslessUnpackStr && res != "ok "+id.Hash) || !strings.HasPrefix(res, "ok ") {
			c.PropFail("fetch-refused-valid", fmt.Sprintf("a ware altered only in encoding (%s) was not accepted: %s", mut, res), op)
		}
	default:
		// the stream no longer encodes the fileset (or is broken): must be refused, nothing cached
		if strings.HasPrefix(res, "ok") {
			// unless the mutation happened to be a no-op on the hashed content (e.g. flip in padding / in an unhashed field)
			if ok, _ := stillSameFileset(altered, id); !ok {
				c.PropFail("fetch-accepted-altered", fmt.Sprintf("an altered ware (%s) was accepted as %s", mut, id.Hash), op)
			}
		} else {
			if fin == "eof" && res != "err rio-hash-mismatch" && res != "err rio-ware-corrupt" && res != "err rio-inoperable-path" {
				c.PropFail("fetch-wrong-error", "altered but parseable ware refused with "+res, op)
			}
			if shelfErr == nil {
				c.PropFail("fetch-shelved-altered", "a refused ware left a shelf in the fileset cache", op)
			}
		}
	}
	if ents, e := os.ReadDir(cache); e == nil {
		for _, d := range ents {
			if strings.HasPrefix(d.Name(), ".tmp.unpack.") {
				c.PropFail("cache-temp-left", "temp dir left in cache: "+d.Name(), op)
			}
		}
	}
	// ---- the unfiltered hash is what is verified: asking the same warehouse for the *filtered* id (it serves W's bytes
	// at that address) with the same altering filter must be refused, although the filtered fileset does hash to the request
	if ufStr != losslessUnpackStr && mut == "none" && pan3 == "" && err3 == nil && id3 != id {
		os.WriteFile(storedWarePath(whKind, whDir, id3), stored, 0644) // (for a CA warehouse: W's bytes filed under the filtered id)
		os.MkdirAll(filepath.Dir(storedWarePath(whKind, whDir, id3)), 0755)
		os.WriteFile(storedWarePath(whKind, whDir, id3), stored, 0644)
		os.Setenv("RIO_CACHE", filepath.Join(base, "cache2"))
		id6, err6, pan6 := safeCall(func() (api.WareID, error) {
			return tartrans.Unpack(ctx, id3, filepath.Join(base, "dst2"), uf, rio.Placement_Direct, []api.WarehouseLocation{whAddr(whKind, whDir)}, rio.Monitor{})
		})
		os.Setenv("RIO_CACHE", cache)
		if r6 := resTok(id6, err6, pan6); strings.HasPrefix(r6, "ok") {
			c.PropFail("filtered-id-accepted", fmt.Sprintf("a ware whose unfiltered hash is %s was accepted as %s (the id of its filtered image) under an altering filter", id.Hash, id3.Hash), op)
		}
		c.H("filtered-id-request")
	}
	// ---- the same request again (same altering filter, same cache): the same answer (C12: the id reported is the id of
	// what is materialised, whichever branch of the cache protocol served it)
	if ufStr != losslessUnpackStr && mut == "none" && pan3 == "" && err3 == nil && mode != "direct" {
		id8, err8, pan8 := safeCall(func() (api.WareID, error) {
			return tartrans.Unpack(ctx, id, filepath.Join(base, "dst-again"), uf, rio.PlacementMode(mode), []api.WarehouseLocation{whAddr(whKind, whDir)}, rio.Monitor{})
		})
		if mode == "mount" {
			syscall.Unmount(filepath.Join(base, "dst-again"), 0)
		}
		if r8 := resTok(id8, err8, pan8); r8 != resTok(id3, nil, "") {
			c.PropFail("filter-attr", fmt.Sprintf("the same unpack (filter %s, placement %s) answered %s the first time and %s the second", ufStr, mode, resTok(id3, nil, ""), r8), op)
		}
		c.H("altering-twice")
	}
	// ---- a ware id is not a path: with W on its shelf, "W/<a directory of W>" (and friends) names a piece of that shelf;
	// nothing was fetched or verified under that name, so no placement mode may answer it
	if shelfErr == nil && res == "ok "+id.Hash && ufStr == losslessUnpackStr {
		for _, e := range fsx {
			if e.Kind != 'd' || e.Name == "" || strings.Contains(e.Name, "/") {
				continue
			}
			for _, bogus := range []string{id.Hash + "/" + e.Name, id.Hash + "/.", id.Hash + "/" + e.Name + "/..", id.Hash[:3] + "/../" + id.Hash[:3] + "/" + id.Hash[3:6] + "/" + id.Hash} {
				for _, pm := range []rio.PlacementMode{rio.Placement_Copy, rio.Placement_None} {
					bid := api.WareID{Type: "tar", Hash: bogus}
					id7, err7, pan7 := safeCall(func() (api.WareID, error) {
						return tartrans.Unpack(ctx, bid, filepath.Join(base, "dst-sub"), uf, pm, []api.WarehouseLocation{whAddr(whKind, whDir)}, rio.Monitor{})
					})
					if pan7 != "" {
						c.PropFail("fetch-panic", fmt.Sprintf("unpack of the ware id %q panicked: %s", bogus, pan7), op)
					} else if err7 == nil {
						c.PropFail("fetch-accepted-altered", fmt.Sprintf("with %s on its shelf, an unpack (%s) of the ware id %q — never fetched, never verified — succeeded as %s", id.Hash[:8], pm, "tar:"+bogus, id7), op)
					}
					rmrf(filepath.Join(base, "dst-sub"))
				}
			}
			c.H("shelf-subpath-request")
			break
		}
	}
	c.H("mut:" + strings.Split(mut, ":")[0] + ":" + strings.Fields(res)[0])
	// ---- mirror of the (altered) ware into a second warehouse
	before2, _ := os.ReadFile(warePath)
	id5, err5, pan5 := safeCall(func() (api.WareID, error) {
		return tartrans.Mirror(ctx, id, whAddr("ca", wh2), []api.WarehouseLocation{whAddr(whKind, whDir)}, rio.Monitor{})
	})
	mres := "ok"
	if pan5 != "" {
		mres = "panic"
	} else if err5 != nil {
		mres = "err " + catOf(err5)
	}
	_ = id5
	c.EmitR(op+" #mirror", fmt.Sprintf("fetch mirror %s %s %s %s", id.Hash, head, fin, toks), mres)
	final := storedWarePath("ca", wh2, id)
	_, finalErr := os.Lstat(final)
	if mres != "ok" && finalErr == nil {
		c.PropFail("mirror-committed-altered", "a failed mirror left an object at the target's final address", op)
	}
	if mres == "ok" && finalErr != nil {
		c.PropFail("mirror-missing", "mirror succeeded but the target does not hold the ware", op)
	}
	if mres == "ok" && !preserving {
		if ok, _ := stillSameFileset(altered, id); !ok {
			c.PropFail("mirror-accepted-altered", fmt.Sprintf("mirror accepted an altered ware (%s)", mut), op)
		}
	}
	if ents, e := os.ReadDir(wh2); e == nil {
		for _, d := range ents {
			if strings.HasPrefix(d.Name(), ".tmp.upload") {
				c.PropFail("mirror-staging-left", "staging file left in the mirror target: "+d.Name(), op)
			}
		}
	}
	after2, _ := os.ReadFile(warePath)
	if !bytes.Equal(before2, after2) {
		c.PropFail("warehouse-mutated", "mirror modified the source warehouse", op)
	}
	c.Distinct(op)
}

// stillSameFileset: independent check (reference tree hash over the decoded entries) that a stream
// still encodes the fileset with the given id.
func stillSameFileset(stored []byte, id api.WareID) (bool, string) {
	var rd io.Reader = bytes.NewReader(stored)
	if len(stored) >= 3 && stored[0] == 0x1f && stored[1] == 0x8b {
		zr, err := gzip.NewReader(bytes.NewReader(stored))
		if err != nil {
			return false, ""
		}
		rd = zr // streaming: bytes after the tar end-of-archive marker (e.g. a damaged gzip trailer) are never fetched
	}
	tr := tar.NewReader(rd)
	var f Fileset
	seen := map[string]bool{}
	for {
		h, err := tr.Next()
		if err == io.EOF {
			break
		}
		if err != nil {
			return false, ""
		}
		b, err := io.ReadAll(tr)
		if err != nil {
			return false, ""
		}
		name := strings.TrimSuffix(strings.TrimPrefix(filepathClean(h.Name), "./"), "/")
		if name == "." {
			name = ""
		}
		k := byte('?')
		switch h.Typeflag {
		case tar.TypeReg, tar.TypeRegA:
			k = 'f'
		case tar.TypeDir:
			k = 'd'
		case tar.TypeSymlink:
			k = 'L'
		case tar.TypeFifo:
			k = 'p'
		case tar.TypeBlock:
			k = 'D'
		case tar.TypeChar:
			k = 'c'
		}
		e := Entry{Name: name, Kind: k, Perms: uint16(h.Mode & 07777), Uid: uint32(h.Uid), Gid: uint32(h.Gid), Link: h.Linkname, Maj: h.Devmajor, Min: h.Devminor, Sec: h.ModTime.Unix(), Nsec: h.ModTime.Nanosecond(), Content: b}
		if seen[name] {
			for i := range f {
				if f[i].Name == name {
					f[i] = e
				}
			}
			continue
		}
		seen[name] = true
		f = append(f, e)
	}
	if len(f) == 0 {
		return false, ""
	}
	// root first
	for i := range f {
		if f[i].Name == "" {
			f[0], f[i] = f[i], f[0]
		}
	}
	if f[0].Name != "" {
		return false, ""
	}
	got := misc.Base58Encode(RefTreeHash(f, sha384))
	return got == id.Hash, got
}

func filepathClean(s string) string { return filepath.Clean(s) }

// fetchOverlap: two operations on one wareID overlap in time. Operation 1 (a mirror, or an unpack) reads W from an http
// warehouse that serves *another* ware of the same length under W's address and holds the response open just before its
// end; while it hangs, operation 2 unpacks the genuine W from a file:// warehouse; then the server lets go. Operation 1
// must fail, and nothing may be filed under W at its target / in its cache. Recipe: "fetch-overlap <tar|zip> <mirror|unpack>".
func fetchOverlap(c *Ctx, op string) {
	f := strings.Fields(op)
	fmtName, what := f[1], f[2]
	caseCounter++
	base := filepath.Join(c.Work, fmt.Sprintf("fo%d", caseCounter))
	defer rmrf(base)
	fn := funcsFor(fmtName)
	ctx := context.Background()
	pf := api.MustParseFilesetPackFilter(losslessPackStr)
	uf := api.MustParseFilesetUnpackFilter(losslessUnpackStr)
	os.Setenv("RIO_CACHE", filepath.Join(base, "cache"))
	os.Setenv("RIO_BASE", filepath.Join(base, "riobase"))
	body := make([]byte, 3000)
	x := uint32(77)
	for i := range body {
		x = x*1664525 + 1013904223
		body[i] = byte(x >> 24)
	}
	mk := func(name string, b []byte) (api.WareID, []byte, string) {
		src, wh := filepath.Join(base, "src-"+name), filepath.Join(base, "wh-"+name)
		os.MkdirAll(src, 0755)
		os.MkdirAll(wh, 0755)
		os.WriteFile(filepath.Join(src, "payload"), b, 0644)
		os.Chtimes(filepath.Join(src, "payload"), time.Unix(1e9, 0), time.Unix(1e9, 0))
		os.Chtimes(src, time.Unix(1e9, 0), time.Unix(1e9, 0))
		id, err := fn.pack(ctx, api.PackType(fmtName), src, pf, whAddr("file", wh), rio.Monitor{})
		if err != nil {
			return api.WareID{}, nil, ""
		}
		st, _ := os.ReadFile(storedWarePath("file", wh, id))
		return id, st, wh
	}
	idW, bytesW, whW := mk("genuine", body)
	other := append([]byte(nil), body...)
	other[1500] ^= 0x55
	idO, bytesO, _ := mk("other", other)
	if idW.Hash == "" || idO.Hash == "" || idW == idO || len(bytesW) != len(bytesO) {
		c.H("fetch-overlap:unequal-lengths")
		c.EmitR(op, "skip", "skip")
		return
	}
	sentAll, release := make(chan struct{}), make(chan struct{})
	var once sync.Once
	srv := httptest.NewServer(http.HandlerFunc(func(w http.ResponseWriter, r *http.Request) {
		w.Header().Set("Content-Length", fmt.Sprint(len(bytesO)))
		w.Write(bytesO[:len(bytesO)-1])
		if fl, ok := w.(http.Flusher); ok {
			fl.Flush()
		}
		once.Do(func() { close(sentAll) })
		<-release
		w.Write(bytesO[len(bytesO)-1:])
	}))
	defer srv.Close()
	tgt := filepath.Join(base, "tgt")
	os.MkdirAll(tgt, 0755)
	done := make(chan string, 1)
	go func() {
		var id api.WareID
		var err error
		var pan string
		if what == "mirror" {
			id, err, pan = safeCall(func() (api.WareID, error) {
				return fn.mirror(ctx, idW, whAddr("ca", tgt), []api.WarehouseLocation{api.WarehouseLocation(srv.URL + "/w")}, rio.Monitor{})
			})
		} else {
			id, err, pan = safeCall(func() (api.WareID, error) {
				return fn.unpack(ctx, idW, filepath.Join(base, "dst1"), uf, rio.Placement_Copy, []api.WarehouseLocation{api.WarehouseLocation(srv.URL + "/w")}, rio.Monitor{})
			})
		}
		done <- resTok(id, err, pan)
	}()
	res1 := ""
	select {
	case <-sentAll:
		time.Sleep(150 * time.Millisecond) // let operation 1 take in what has arrived
	case res1 = <-done:
	case <-time.After(10 * time.Second):
	}
	res2 := "-"
	if res1 == "" {
		os.Setenv("RIO_CACHE", filepath.Join(base, "cache2"))
		id2, err2, pan2 := safeCall(func() (api.WareID, error) {
			return fn.unpack(ctx, idW, filepath.Join(base, "dst2"), uf, rio.Placement_Direct, []api.WarehouseLocation{whAddr("file", whW)}, rio.Monitor{})
		})
		res2 = resTok(id2, err2, pan2)
		os.Setenv("RIO_CACHE", filepath.Join(base, "cache"))
	}
	close(release)
	if res1 == "" {
		select {
		case res1 = <-done:
		case <-time.After(20 * time.Second):
			res1 = "timeout"
		}
	}
	c.EmitR(op, "skip", "skip")
	c.H("fetch-overlap:" + fmtName + ":" + what + ":" + strings.Fields(res1)[0] + ":" + strings.Fields(res2)[0])
	if res2 != "-" && res2 != "ok "+idW.Hash {
		c.PropFail("fetch-refused-valid", "an unpack of the genuine ware from a file warehouse failed while another fetch of the same id was in flight: "+res2, op)
	}
	_, filedErr := os.Lstat(storedWarePath("ca", tgt, idW))
	switch {
	case res1 == "panic":
		c.PropFail("fetch-panic", "a fetch overlapping another fetch of the same id panicked", op)
	case strings.HasPrefix(res1, "ok") && what == "mirror":
		c.PropFail("mirror-accepted-altered", fmt.Sprintf("a mirror of %s from a warehouse serving another ware (same length) under that address succeeded while a second fetch of the genuine ware ran", idW.Hash[:8]), op)
	case strings.HasPrefix(res1, "ok"):
		c.PropFail("fetch-accepted-altered", fmt.Sprintf("an unpack of %s from a warehouse serving another ware (same length) under that address succeeded while a second fetch of the genuine ware ran", idW.Hash[:8]), op)
	}
	if what == "mirror" && filedErr == nil {
		if b, _ := os.ReadFile(storedWarePath("ca", tgt, idW)); !bytes.Equal(b, bytesW) {
			c.PropFail("mirror-accepted-altered", "the mirror target holds, under W's address, bytes that are not W's", op)
		}
	}
	if what == "unpack" {
		if sh, _ := filepath.Glob(filepath.Join(base, "cache", fmtName, "fileset", "*", "*", "*")); len(sh) > 0 {
			c.PropFail("fetch-shelved-altered", "a fetch of another ware under W's address left a shelf in the fileset cache", op)
		}
	}
	c.Distinct(op)
}

func fetchEngine(c *Ctx) {
	if replayLines() == nil {
		for _, how := range []string{"deflate", "store"} {
			for _, mode := range []string{"direct", "copy", "none"} {
				fetchZipTail(c, fmt.Sprintf("fetch-ziptail %s %s", how, mode))
			}
		}
	}
	if ls := replayLines(); ls != nil {
		for _, op := range ls {
			if strings.HasPrefix(op, "fetch ") && !strings.Contains(op, " #") {
				fetchExec(c, op)
			} else if strings.HasPrefix(op, "fetch-overlap ") {
				fetchOverlap(c, op)
			} else if strings.HasPrefix(op, "fetch-ziptail ") {
				fetchZipTail(c, op)
			} else if strings.HasPrefix(op, "fetch-zipowner ") {
				fetchZipOwner(c, op)
			} else if strings.HasPrefix(op, "fetch-cancel-appended ") {
				fetchCancelAppended(c, op)
			}
		}
		return
	}
	n := 10
	if c.Tier == "thorough" {
		n = 150
	}
	for _, fm := range []string{"zip", "tar"} {
		for _, w := range []string{"mirror", "unpack"} {
			fetchOverlap(c, fmt.Sprintf("fetch-overlap %s %s", fm, w))
		}
	}
	fetchCancelAppended(c, "fetch-cancel-appended unpack")
	fetchCancelAppended(c, "fetch-cancel-appended mirror")
	for i, which := range []string{"unix3", "both", "unix2", "unix3", "unix3", "both"} {
		fetchZipOwner(c, fmt.Sprintf("fetch-zipowner %s %s", which, []string{"direct", "copy", "none", "mount"}[i%4]))
	}
	muts := []string{"none", "recompress", "plain", "pad:2", "reorder", "flip", "flip", "flip", "trunc", "trunc", "truncgz", "substitute", "dropentry", "addentry", "addabs", "addabs", "renamebs", "renamebs", "addlink", "twomember", "twomember-same", "adddir", "modattr", "modattr", "modattr-ns", "modcontent"}
	modes := []string{"direct", "copy", "none", "mount"}
	for k := 0; k < n; k++ {
		fsx := c.GenFileset(GenOpts{MaxEntries: 7, Kinds: "fffdLp", SubSecond: false, BigIds: false, Setid: false, MaxContent: 1500})
		sanitizeForRoundtrip(fsx, "tar")
		// make sure there is at least one regular file with content
		fsx = append(fsx, Entry{Name: "payload", Kind: 'f', Perms: 0644, Uid: 11, Gid: 12, Sec: 1e9, Content: []byte(strings.Repeat("payload", 40+c.Intn(100)))})
		for _, m := range muts {
			mut := m
			switch m {
			case "flip":
				mut = fmt.Sprintf("flip:%d:%d", c.Intn(1<<20), c.Intn(8))
			case "trunc", "truncgz":
				mut = fmt.Sprintf("%s:%d", m, c.Intn(1<<20))
			case "modattr":
				mut = fmt.Sprintf("modattr:%d:%d", c.Intn(50), c.Intn(5))
			case "modattr-ns":
				mut = fmt.Sprintf("modattr:%d:4", 1+c.Intn(999999998))
			case "dropentry":
				mut = fmt.Sprintf("dropentry:%d", c.Intn(50))
			case "addlink":
				mut = fmt.Sprintf("addlink:%d", c.Intn(50))
			case "addabs":
				mut = fmt.Sprintf("addabs:%d:%d", c.Intn(3), c.Intn(2))
			case "renamebs":
				mut = fmt.Sprintf("renamebs:%d", c.Intn(20))
			}
			mode := modes[c.Intn(4)]
			if m == "modattr-ns" && k < 2 {
				// plain: the altered ware is read
			} else if c.Chance(1, 3) {
				mode += "+alt"
			} else if c.Chance(1, 3) || (k == 0 && (m == "substitute" || m == "trunc" || m == "flip")) {
				mode += "+warm"
			}
			op := fmt.Sprintf("fetch tar %s %s %s %s", []string{"ca", "file"}[c.Intn(2)], mode, mut, filesetTok(fsx))
			fetchExec(c, op)
		}
	}
}

// fetchCancelAppended: the stored ware is W's own tar with one more entry appended (it no longer encodes W); the fetch is
// cancelled at its k-th poll of the context, for every k: whatever the moment, the unpack / mirror does not answer W —
// a cancellation ends the operation with an error, it does not end the archive. Recipe: "fetch-cancel-appended <mirror|unpack>".
func fetchCancelAppended(c *Ctx, op string) {
	c.Begin(op)
	what := strings.Fields(op)[1]
	c.EmitR(op, "skip", "skip")
	for k := 1; k <= 12; k++ {
		caseCounter++
		base := filepath.Join(c.Work, fmt.Sprintf("fca%d", caseCounter))
		src, wh, wh2 := filepath.Join(base, "src"), filepath.Join(base, "wh"), filepath.Join(base, "wh2")
		os.MkdirAll(filepath.Join(src, "d", "e"), 0755)
		os.MkdirAll(wh, 0755)
		os.MkdirAll(wh2, 0755)
		os.Setenv("RIO_CACHE", filepath.Join(base, "cache"))
		os.Setenv("RIO_BASE", filepath.Join(base, "riobase"))
		os.WriteFile(filepath.Join(src, "a"), []byte("a"), 0644)
		os.WriteFile(filepath.Join(src, "d", "e", "f"), []byte("f"), 0644)
		ctx := context.Background()
		id, err := tartrans.Pack(ctx, "tar", src, api.MustParseFilesetPackFilter(losslessPackStr), whAddr("ca", wh), rio.Monitor{})
		if err != nil {
			rmrf(base)
			return
		}
		warePath := storedWarePath("ca", wh, id)
		stored, _ := os.ReadFile(warePath)
		os.WriteFile(warePath, alterWare(c, stored, "addentry", nil), 0644)
		cc := &countdownCtx{Context: ctx, left: k, done: make(chan struct{})}
		var got api.WareID
		var gerr error
		var pan string
		if what == "mirror" {
			got, gerr, pan = safeCall(func() (api.WareID, error) {
				return tartrans.Mirror(cc, id, whAddr("ca", wh2), []api.WarehouseLocation{whAddr("ca", wh)}, rio.Monitor{})
			})
		} else {
			got, gerr, pan = safeCall(func() (api.WareID, error) {
				return tartrans.Unpack(cc, id, filepath.Join(base, "dst"), api.MustParseFilesetUnpackFilter(losslessUnpackStr), rio.Placement_None, []api.WarehouseLocation{whAddr("ca", wh)}, rio.Monitor{})
			})
		}
		c.H("fetch-cancel-appended:" + what + ":" + strings.Fields(resTok(got, gerr, pan))[0])
		_, tgtErr := os.Lstat(storedWarePath("ca", wh2, id))
		shelves, _ := filepath.Glob(filepath.Join(base, "cache", "tar", "fileset", "*", "*", "*"))
		switch {
		case pan != "":
			c.PropFail("fetch-panic", "a cancelled fetch of an altered ware panicked: "+pan, op)
		case gerr == nil:
			cl := "fetch-accepted-altered"
			if what == "mirror" {
				cl = "mirror-accepted-altered"
			}
			c.PropFail(cl, fmt.Sprintf("the stored ware is W with an entry appended; the %s, cancelled at its poll number %d, answered %s without an error", what, k, got), op)
		case tgtErr == nil:
			c.PropFail("mirror-committed-altered", "a failed (cancelled) mirror left an object at the target's final address", op)
		case len(shelves) > 0:
			c.PropFail("fetch-shelved-altered", "a failed (cancelled) unpack of an altered ware left a shelf in the fileset cache", op)
		}
		rmrf(base)
	}
	c.Distinct(op)
}

// fetchZipOwner: a zip ware stores every owner twice (Info-ZIP "unix2" block, 16-bit ids; "unix3" block, 32-bit ids; the
// newer block is the authoritative one). The stored ware is altered in one block only, in both, or in neither: whenever the
// authoritative owner changed, the ware no longer encodes W — every placement mode and mirror must refuse it, nothing is
// shelved, nothing reaches the mirror target. Recipe: "fetch-zipowner <unix3|unix2|both> <mode>".
func fetchZipOwner(c *Ctx, op string) {
	c.Begin(op)
	f := strings.Fields(op)
	which, mode := f[1], f[2]
	caseCounter++
	base := filepath.Join(c.Work, fmt.Sprintf("fz%d", caseCounter))
	defer rmrf(base)
	src, whDir, wh2, cache := filepath.Join(base, "src"), filepath.Join(base, "wh"), filepath.Join(base, "wh2"), filepath.Join(base, "cache")
	os.MkdirAll(whDir, 0755)
	os.MkdirAll(wh2, 0755)
	os.Setenv("RIO_CACHE", cache)
	os.Setenv("RIO_BASE", filepath.Join(base, "riobase"))
	ctx := context.Background()
	fsx := Fileset{{Name: "", Kind: 'd', Perms: 0755, Uid: 1000, Gid: 1000, Sec: 1e9}, {Name: "bin", Kind: 'd', Perms: 0755, Uid: 1000, Gid: 1000, Sec: 1e9},
		{Name: "bin/tool", Kind: 'f', Perms: 04755, Uid: 1000, Gid: 1000, Sec: 1e9, Content: []byte("#!/bin/sh\n")}, {Name: "data", Kind: 'f', Perms: 0644, Uid: 1000, Gid: 1000, Sec: 1e9, Content: []byte("d")}}
	if err := Materialize(fsx, src, nil); err != nil {
		c.EmitR(op, "skip", "skip")
		return
	}
	fn := funcsFor("zip")
	id, err := fn.pack(ctx, "zip", src, api.MustParseFilesetPackFilter(losslessPackStr), whAddr("ca", whDir), rio.Monitor{})
	if err != nil {
		c.EmitR(op, "skip", "skip")
		return
	}
	warePath := storedWarePath("ca", whDir, id)
	stored, _ := os.ReadFile(warePath)
	alt := append([]byte(nil), stored...)
	n3, n2 := 0, 0
	for i := 0; i+15 <= len(alt); i++ {
		if (which == "unix3" || which == "both") && bytes.Equal(alt[i:i+6], []byte{0x75, 0x78, 0x0b, 0x00, 0x01, 0x04}) && alt[i+10] == 0x04 {
			alt[i+6], alt[i+7], alt[i+8], alt[i+9] = 0, 0, 0, 0 // uid 1000 -> 0
			n3++
		}
		if (which == "unix2" || which == "both") && bytes.Equal(alt[i:i+4], []byte{0x55, 0x78, 0x04, 0x00}) && alt[i+4] == 0xe8 && alt[i+5] == 0x03 {
			alt[i+4], alt[i+5] = 0, 0
			n2++
		}
	}
	if (which != "unix2" && n3 == 0) || (which != "unix3" && n2 == 0) {
		c.H("fetch-zipowner:no-blocks")
		c.EmitR(op, "skip", "skip")
		return
	}
	os.WriteFile(warePath, alt, 0644)
	authoritativeChanged := which != "unix2"
	dst := filepath.Join(base, "dst")
	id3, err3, pan3 := safeCall(func() (api.WareID, error) {
		return fn.unpack(ctx, id, dst, api.MustParseFilesetUnpackFilter(losslessUnpackStr), rio.PlacementMode(mode), []api.WarehouseLocation{whAddr("ca", whDir)}, rio.Monitor{})
	})
	if mode == "mount" {
		syscall.Unmount(dst, 0)
	}
	res := resTok(id3, err3, pan3)
	shelves, _ := filepath.Glob(filepath.Join(cache, "zip", "fileset", "*", "*", "*"))
	switch {
	case pan3 != "":
		c.PropFail("fetch-panic", "unpack of a zip with altered owner blocks panicked: "+pan3, op)
	case authoritativeChanged && err3 == nil:
		c.PropFail("fetch-accepted-altered", fmt.Sprintf("a zip ware whose %s owner block(s) were rewritten (uid 1000 -> 0, %d+%d places) was accepted as %s (placement %s)", which, n3, n2, id.Hash, mode), op)
	case authoritativeChanged && len(shelves) > 0:
		c.PropFail("fetch-shelved-altered", "a refused zip ware left a shelf in the fileset cache", op)
	case !authoritativeChanged && err3 != nil && catOf(err3) != "rio-hash-mismatch":
		c.PropFail("fetch-wrong-error", "a zip altered in the superseded unix2 block only is refused with "+res, op)
	}
	id5, err5, pan5 := safeCall(func() (api.WareID, error) {
		return fn.mirror(ctx, id, whAddr("ca", wh2), []api.WarehouseLocation{whAddr("ca", whDir)}, rio.Monitor{})
	})
	_ = id5
	_, finalErr := os.Lstat(storedWarePath("ca", wh2, id))
	switch {
	case pan5 != "":
		c.PropFail("fetch-panic", "mirror of a zip with altered owner blocks panicked: "+pan5, op)
	case authoritativeChanged && err5 == nil:
		c.PropFail("mirror-accepted-altered", fmt.Sprintf("mirror accepted a zip ware whose %s owner block(s) were rewritten", which), op)
	case err5 != nil && finalErr == nil:
		c.PropFail("mirror-committed-altered", "a failed mirror left an object at the target's final address", op)
	}
	c.H("fetch-zipowner:" + which + ":" + strings.Fields(res)[0])
	c.EmitR(op, "skip", "skip")
}

// fetchZipTail: a stored zip ware altered so that one entry's data stream yields the genuine bytes *plus a tail*, while
// every header keeps the genuine size and checksum (the recomputed tree hash of the declared sizes would still be W). Such
// bytes are not ware W: unpack refuses them in every placement mode, shelves nothing, and mirror does not publish them.
// Recipe: "fetch-ziptail <deflate|store> <mode>".
func fetchZipTail(c *Ctx, op string) {
	c.Begin(op)
	f := strings.Fields(op)
	how, mode := f[1], f[2]
	caseCounter++
	base := filepath.Join(c.Work, fmt.Sprintf("fzt%d", caseCounter))
	defer rmrf(base)
	src, whDir, wh2, cache := filepath.Join(base, "src"), filepath.Join(base, "wh"), filepath.Join(base, "wh2"), filepath.Join(base, "cache")
	os.MkdirAll(whDir, 0755)
	os.MkdirAll(wh2, 0755)
	os.Setenv("RIO_CACHE", cache)
	os.Setenv("RIO_BASE", filepath.Join(base, "riobase"))
	ctx := context.Background()
	genuine := bytes.Repeat([]byte("genuine content of the entry\n"), 20)
	fsx := Fileset{{Name: "", Kind: 'd', Perms: 0755, Uid: 1000, Gid: 1000, Sec: 1e9},
		{Name: "data", Kind: 'f', Perms: 0644, Uid: 1000, Gid: 1000, Sec: 1e9, Content: genuine}, {Name: "z", Kind: 'f', Perms: 0644, Uid: 1000, Gid: 1000, Sec: 1e9, Content: []byte("z")}}
	c.EmitR(op, "skip", "skip")
	if err := Materialize(fsx, src, nil); err != nil {
		return
	}
	fn := funcsFor("zip")
	id, err := fn.pack(ctx, "zip", src, api.MustParseFilesetPackFilter(losslessPackStr), whAddr("ca", whDir), rio.Monitor{})
	if err != nil {
		return
	}
	warePath := storedWarePath("ca", whDir, id)
	stored, _ := os.ReadFile(warePath)
	zr, err := zip.NewReader(bytes.NewReader(stored), int64(len(stored)))
	if err != nil {
		return
	}
	tail := []byte("\nsmuggled tail: rm -rf / #\n")
	var out bytes.Buffer
	zw := zip.NewWriter(&out)
	touched := false
	for _, zf := range zr.File {
		h := zf.FileHeader
		if zf.Name == "data" || zf.Name == "./data" {
			touched = true
			body := append(append([]byte(nil), genuine...), tail...)
			var raw bytes.Buffer
			if how == "deflate" {
				fw, _ := flate.NewWriter(&raw, 6)
				fw.Write(body)
				fw.Close()
				h.Method = zip.Deflate
			} else {
				raw.Write(body)
				h.Method = zip.Store
			}
			h.CompressedSize64 = uint64(raw.Len())
			h.UncompressedSize64 = uint64(len(genuine)) // the genuine size and the genuine checksum stay
			h.CRC32 = crc32.ChecksumIEEE(genuine)
			h.Flags &^= 0x8
			w, e := zw.CreateRaw(&h)
			if e != nil {
				return
			}
			w.Write(raw.Bytes())
			continue
		}
		rr, e := zf.OpenRaw()
		if e != nil {
			return
		}
		w, e := zw.CreateRaw(&h)
		if e != nil {
			return
		}
		io.Copy(w, rr)
	}
	zw.Close()
	if !touched {
		c.H("fetch-ziptail:no-entry")
		return
	}
	os.WriteFile(warePath, out.Bytes(), 0644)
	dst := filepath.Join(base, "dst")
	id3, err3, pan3 := safeCall(func() (api.WareID, error) {
		return fn.unpack(ctx, id, dst, api.MustParseFilesetUnpackFilter(losslessUnpackStr), rio.PlacementMode(mode), []api.WarehouseLocation{whAddr("ca", whDir)}, rio.Monitor{})
	})
	if mode == "mount" {
		syscall.Unmount(dst, 0)
	}
	res := resTok(id3, err3, pan3)
	shelves, _ := filepath.Glob(filepath.Join(cache, "zip", "fileset", "*", "*", "*"))
	switch {
	case pan3 != "":
		c.PropFail("fetch-panic", "unpack of a zip whose entry stream is longer than declared panicked: "+pan3, op)
	case err3 == nil:
		c.PropFail("fetch-accepted-altered", fmt.Sprintf("a zip ware in which the %s data stream of one entry carries %d bytes more than its headers declare was accepted as %s (placement %s)", how, len(tail), id.Hash, mode), op)
	case len(shelves) > 0:
		c.PropFail("fetch-shelved-altered", "a refused zip ware (entry stream longer than declared) left a shelf in the fileset cache", op)
	}
	_, err5, pan5 := safeCall(func() (api.WareID, error) {
		return fn.mirror(ctx, id, whAddr("ca", wh2), []api.WarehouseLocation{whAddr("ca", whDir)}, rio.Monitor{})
	})
	_, finalErr := os.Lstat(storedWarePath("ca", wh2, id))
	switch {
	case pan5 != "":
		c.PropFail("fetch-panic", "mirror of a zip whose entry stream is longer than declared panicked: "+pan5, op)
	case err5 == nil:
		c.PropFail("mirror-accepted-altered", "mirror accepted a zip ware in which one entry's data stream is longer than its headers declare", op)
	case finalErr == nil:
		c.PropFail("mirror-committed-altered", "a failed mirror (entry stream longer than declared) left an object at the target's final address", op)
	}
	c.H("fetch-ziptail:" + how + ":" + mode + ":" + strings.Join(strings.Fields(res)[:min(2, len(strings.Fields(res)))], "_"))
}
