package main

import (
	"bytes"
	"context"
	"fmt"
	"os"
	"path/filepath"
	"strings"
	"syscall"
	"time"

	api "github.com/polydawn/go-timeless-api"
	"github.com/polydawn/go-timeless-api/rio"
	"github.com/polydawn/rio/fs"
	"github.com/polydawn/rio/stitch/placer"
	tartrans "github.com/polydawn/rio/transmat/tar"
	"golang.org/x/sys/unix"
)

func init() { engines["place"] = placeEngine }

// shelfIdentity: the shelf's logical content plus inode numbers and link counts (nothing may be replaced either).
func shelfIdentity(dir string) string {
	sn, err := Snapshot(dir)
	if err != nil {
		return "ERR " + err.Error()
	}
	var sb strings.Builder
	sb.WriteString(sn.Digest(true))
	filepath.Walk(dir, func(p string, info os.FileInfo, e error) error {
		if e == nil {
			var st unix.Stat_t
			if unix.Lstat(p, &st) == nil {
				fmt.Fprintf(&sb, "%s ino=%d nlink=%d\n", strings.TrimPrefix(p, dir), st.Ino, st.Nlink)
			}
		}
		return nil
	})
	return sb.String()
}

// placeExec: recipe "place <ops> <fileset>"; ops is a comma list of
//
//	u:<mode>:<pre>        Unpack the ware into a fresh destination (pre-state absent|junk|foreign) and check it (C10)
//	p:<copy|copyro|mountrw|bindro>  place from the shelf with the placer API (C11)
//	w:<i>:<kind>          mutate inside placement i (write|delete|chmod|chown|rename|mkdir|truncate)
//	t:<i>                 tear placement i down
//	other                 unpack another ware through the same cache
func placeExec(c *Ctx, op string) {
	f := strings.Fields(op)
	ops := strings.Split(f[1], ",")
	fsx := parseFilesetTok(f[2])
	caseCounter++
	base := filepath.Join(c.Work, fmt.Sprintf("pl%d", caseCounter))
	defer rmrf(base)
	src, whDir, cache := filepath.Join(base, "src"), filepath.Join(base, "wh"), filepath.Join(base, "cache")
	os.MkdirAll(whDir, 0755)
	os.Setenv("RIO_CACHE", cache)
	os.Setenv("RIO_BASE", filepath.Join(base, "riobase"))
	// an environment the documentation mentions (the placer doc comment promises a RIO_MOUNT_PLACER switch): whatever it
	// selects, the shelf stays what it is
	if len(f) > 3 && strings.HasPrefix(f[3], "env:") {
		kv := strings.SplitN(strings.TrimPrefix(f[3], "env:"), "=", 2)
		os.Setenv(kv[0], kv[1])
		defer os.Unsetenv(kv[0])
	}
	ctx := context.Background()
	pf := api.MustParseFilesetPackFilter(losslessPackStr)
	uf := api.MustParseFilesetUnpackFilter(losslessUnpackStr)
	wh := []api.WarehouseLocation{whAddr("ca", whDir)}
	// the ware: either the fileset (directory root) or, if it has a single entry of kind file, a plain-file ware
	packPath := src
	if len(fsx) == 1 && fsx[0].Kind == 'f' {
		os.MkdirAll(src, 0755)
		packPath = filepath.Join(src, "thefile")
		e := fsx[0]
		os.WriteFile(packPath, e.Content, 0644)
		os.Lchown(packPath, int(e.Uid), int(e.Gid))
		syscall.Chmod(packPath, uint32(e.Perms))
		os.Chtimes(packPath, time.Unix(e.Sec, 0), time.Unix(e.Sec, 0))
	} else if err := Materialize(fsx, src, nil); err != nil {
		c.EmitR(op, "skip", "skip")
		return
	}
	id, err := tartrans.Pack(ctx, "tar", packPath, pf, whAddr("ca", whDir), rio.Monitor{})
	if err != nil {
		c.EmitR(op, "skip", "skip")
		return
	}
	want := truncateForFormat(fsx)
	if packPath != src {
		want = Fileset{want[0]}
		want[0].Name = ""
	}
	// another ware for "warmed by other wares"
	os.MkdirAll(filepath.Join(base, "src2", "d"), 0755)
	os.WriteFile(filepath.Join(base, "src2", "d", "other"), []byte("other"), 0644)
	id2, _ := tartrans.Pack(ctx, "tar", filepath.Join(base, "src2"), pf, whAddr("ca", whDir), rio.Monitor{})
	shelf := filepath.Join(cache, "tar", "fileset", id.Hash[0:3], id.Hash[3:6], id.Hash)
	shelfRef := ""
	type pl struct {
		dst     string
		jan     placer.Janitor
		kind    string
		mounted bool
	}
	var pls []pl
	ndst := 0
	newDst := func(pre string) string {
		ndst++
		parent := filepath.Join(base, fmt.Sprintf("area%d", ndst))
		os.MkdirAll(parent, 0755)
		if ndst%4 == 1 { // a default POSIX ACL (u::rwx,g::r-x,o::---) on the directory the destination is created in: it masks
			// the mode of whatever is created below, and is inherited by new directories
			acl := []byte{2, 0, 0, 0, 1, 0, 7, 0, 0xff, 0xff, 0xff, 0xff, 4, 0, 5, 0, 0xff, 0xff, 0xff, 0xff, 0x20, 0, 0, 0, 0xff, 0xff, 0xff, 0xff}
			unix.Setxattr(parent, "system.posix_acl_default", acl, 0)
		}
		d := filepath.Join(parent, "dst")
		if ndst%3 == 2 && packPath == src { // the destination is named through a symlinked directory (/var/run/… on most systems); directory wares only: a plain-file ware is refused there by the copy placer (observation in DESIGN.md)
			os.Symlink(fmt.Sprintf("area%d", ndst), parent+"-link")
			d = filepath.Join(parent+"-link", "dst")
		}
		switch pre {
		case "junk":
			os.MkdirAll(filepath.Join(d, "oldsub"), 0755)
			os.WriteFile(filepath.Join(d, "oldfile"), []byte("old"), 0600)
			os.WriteFile(filepath.Join(d, "oldsub", "x"), []byte("old"), 0600)
		case "symlink": // the destination is a symlink to an existing directory next to it
			os.MkdirAll(filepath.Join(parent, "elsewhere"), 0755)
			os.WriteFile(filepath.Join(parent, "elsewhere", "precious"), []byte("precious"), 0600)
			os.Symlink("elsewhere", d)
		case "foreign":
			os.MkdirAll(d, 0700)
			unix.Removexattr(d, "system.posix_acl_default")
			os.WriteFile(filepath.Join(d, "oldfile"), []byte("old"), 0600)
			os.Lchown(d, 1234, 1234)
		}
		old := time.Unix(1100000000, 987654321)
		if ndst%2 == 0 { // a parent whose mtime lies ahead of the wall clock (a restored backup, a skewed NFS server)
			old = time.Unix(4102444800, 123456789)
		}
		os.Chtimes(parent, old, old)
		return d
	}
	parentMtime := func(d string) time.Time {
		st, _ := os.Stat(filepath.Dir(d))
		return st.ModTime()
	}
	checkShelf := func(when string) {
		if shelfRef == "" {
			if _, e := os.Lstat(shelf); e == nil {
				shelfRef = shelfIdentity(shelf)
			}
			return
		}
		if now := shelfIdentity(shelf); now != shelfRef {
			c.PropFail("shelf-changed", "the cache shelf changed "+when+": "+firstDiff(shelfRef, now), op)
			shelfRef = now
		}
	}
	checkDst := func(d, how string, hidesOld bool) {
		got, e := Snapshot(d)
		if e != nil {
			c.PropFail("placement-tree", "cannot walk the destination after "+how+": "+e.Error(), op)
			return
		}
		if packPath != src && len(got) == 1 {
			got[0].Name = ""
		}
		if got.Digest(true) != want.Digest(true) {
			c.PropFail("placement-tree", how+" does not show exactly the ware's fileset: "+DiffFilesets(want, got, true), op)
		}
	}
	envOvl := false
	for _, o := range ops {
		x := strings.Split(o, ":")
		switch x[0] {
		case "env":
			// the placer's work area sits on an overlayfs itself (a container's root filesystem): the kernel refuses
			// it as an upperdir (EINVAL), so mount placements may fail here — but must never touch the shelf
			ol, ou, ow, om := filepath.Join(base, "ovl-l"), filepath.Join(base, "ovl-u"), filepath.Join(base, "ovl-w"), filepath.Join(base, "ovl-m")
			for _, d := range []string{ol, ou, ow, om} {
				os.MkdirAll(d, 0755)
			}
			if e := syscall.Mount("none", om, "overlay", 0, fmt.Sprintf("lowerdir=%s,upperdir=%s,workdir=%s", ol, ou, ow)); e == nil {
				envOvl = true
				os.Setenv("RIO_MOUNT_WORKDIR", filepath.Join(om, "work"))
				defer os.Unsetenv("RIO_MOUNT_WORKDIR")
				defer syscall.Unmount(om, syscall.MNT_DETACH)
			}
			c.H(fmt.Sprintf("op:env:ovlwork=%v", envOvl))
		case "again":
			// the same shelf placed again at a destination it was placed at before and written through: (a) on top of the
			// live placement, (b) after that mount was taken away by somebody else (no janitor ran — `rio unpack
			// --placer=mount` never keeps one). The new placement shows the ware, not the earlier session's edits.
			if shelfRef == "" || packPath != src {
				continue
			}
			pfn, e := placer.GetMountPlacer()
			if e != nil {
				continue
			}
			d := newDst("absent")
			if _, e := pfn(fs.MustAbsolutePath(shelf), fs.MustAbsolutePath(d), true); e != nil {
				if !envOvl {
					c.PropFail("placement-failed", "placer mountrw failed: "+e.Error(), op)
				}
				continue
			}
			os.WriteFile(filepath.Join(d, "written-by-user"), []byte("user"), 0644)
			if sn, e := Snapshot(d); e == nil {
				for _, x := range sn {
					if x.Name != "" && x.Name != "written-by-user" {
						os.RemoveAll(filepath.Join(d, x.Name))
						break
					}
				}
			}
			syscall.Chmod(d, 0700)
			if x[1] == "foreign-unmount" {
				syscall.Unmount(d, 0)
			}
			jan2, e2 := pfn(fs.MustAbsolutePath(shelf), fs.MustAbsolutePath(d), true)
			if e2 != nil {
				c.H("op:again:" + x[1] + ":refused")
			} else {
				checkDst(d, "a second writable placement at a destination used (and written through) before ("+x[1]+")", true)
				jan2.Teardown()
				c.H("op:again:" + x[1])
			}
			for i := 0; i < 3 && mounted(d); i++ {
				syscall.Unmount(d, 0)
			}
			checkShelf("after placing again at a used destination")
		case "ubad":
			// a cache hit whose placement cannot be carried out for a reason that has nothing to do with the shelf (the
			// mount work area / the destination's parent is a plain file), while a read-only placement from the shelf is
			// live: the shelf stays what it is and the live placement keeps showing the ware
			if shelfRef == "" {
				tartrans.Unpack(ctx, id, "-", uf, rio.Placement_None, wh, rio.Monitor{})
				checkShelf("init")
			}
			live := newDst("absent")
			jan, le := placer.BindPlacer(fs.MustAbsolutePath(shelf), fs.MustAbsolutePath(live), false)
			afile := filepath.Join(base, fmt.Sprintf("plainfile%d", ndst))
			os.WriteFile(afile, []byte("x"), 0644)
			d := newDst("absent")
			if x[1] == "mount" {
				old, had := os.LookupEnv("RIO_MOUNT_WORKDIR")
				os.Setenv("RIO_MOUNT_WORKDIR", filepath.Join(afile, "work"))
				_, e3, pan3 := safeCall(func() (api.WareID, error) {
					return tartrans.Unpack(ctx, id, d, uf, rio.Placement_Mount, wh, rio.Monitor{})
				})
				if had {
					os.Setenv("RIO_MOUNT_WORKDIR", old)
				} else {
					os.Unsetenv("RIO_MOUNT_WORKDIR")
				}
				c.H("op:ubad:mount:" + resTok(id, e3, pan3))
				if e3 == nil && pan3 == "" {
					syscall.Unmount(d, 0)
				}
			} else {
				d = filepath.Join(afile, "dst")
				_, e3, pan3 := safeCall(func() (api.WareID, error) {
					return tartrans.Unpack(ctx, id, d, uf, rio.Placement_Copy, wh, rio.Monitor{})
				})
				c.H("op:ubad:copy:" + resTok(id, e3, pan3))
			}
			checkShelf("after a cache hit whose " + x[1] + " placement was refused")
			if le == nil {
				checkDst(live, "a live read-only placement, after a later "+x[1]+" placement from the same shelf was refused,", true)
				jan.Teardown()
			}
		case "other":
			tartrans.Unpack(ctx, id2, "-", uf, rio.Placement_None, wh, rio.Monitor{})
			c.H("op:other")
		case "alt":
			// history: the same ware unpacked earlier through the shared cache with an altering filter
			auf := api.MustParseFilesetUnpackFilter("uid=7,gid=8,mtime=@1234,sticky=follow,setid=follow,dev=follow")
			d := newDst("absent")
			if x[1] == "none" {
				d = "-"
			}
			safeCall(func() (api.WareID, error) {
				return tartrans.Unpack(ctx, id, d, auf, rio.PlacementMode(x[1]), wh, rio.Monitor{})
			})
			if x[1] == "mount" {
				syscall.Unmount(d, 0)
			}
			c.H("op:alt:" + x[1])
		case "u":
			mode, pre := x[1], x[2]
			d := newDst(pre)
			pm := parentMtime(d)
			id3, e3, pan3 := safeCall(func() (api.WareID, error) {
				return tartrans.Unpack(ctx, id, d, uf, rio.PlacementMode(mode), wh, rio.Monitor{})
			})
			if pre == "symlink" {
				// refusing is fine, and so is replacing the link by the ware; what the link points at is left alone
				// (not written to, not hidden under a mount), and nothing of the ware shows up there
				el := filepath.Join(filepath.Dir(d), "elsewhere")
				if ents, e := os.ReadDir(el); e != nil || len(ents) != 1 || ents[0].Name() != "precious" {
					c.PropFail("placement-tree", fmt.Sprintf("unpack(%s) onto a destination that is a symlink to a directory changed / hid the directory the link points at", mode), op)
					// (what the link points at lies outside the target: the same observation, seen from C06)
					c.PropFail("escape", fmt.Sprintf("unpack(%s) onto a target path that is a symlink to a directory deleted or changed the content of that directory — an object outside the target", mode), op)
				}
				if mounted(el) {
					c.PropFail("mount-left", fmt.Sprintf("unpack(%s) onto a symlink destination mounted the ware on the link's target", mode), op)
					syscall.Unmount(el, 0)
				}
			}
			if resTok(id3, e3, pan3) != "ok "+id.Hash {
				if pre == "symlink" {
					c.H("op:u:" + mode + ":symlink-refused")
				} else if envOvl && mode == "mount" {
					c.H("op:u:mount:refused-in-ovl-env:" + resTok(id3, e3, pan3))
				} else if !(mode == "direct" && pre != "absent") { // direct placement over existing content is not promised to work
					c.PropFail("placement-failed", fmt.Sprintf("unpack(%s) over %s destination: %s", mode, pre, resTok(id3, e3, pan3)), op)
				}
			} else if mode != "none" {
				hides := mode == "copy" || mode == "mount"
				if hides || pre == "absent" {
					checkDst(d, fmt.Sprintf("unpack(%s) over a %s destination", mode, pre), hides)
				}
				if hides && !parentMtime(d).Equal(pm) {
					c.PropFail("placement-parent-mtime", fmt.Sprintf("unpack(%s) changed the mtime of the destination's parent", mode), op)
				}
				// same re-pack wareID
				if hides || pre == "absent" {
					id4, e4, pan4 := safeCall(func() (api.WareID, error) { return tartrans.Pack(ctx, "tar", d, pf, "", rio.Monitor{}) })
					if resTok(id4, e4, pan4) != "ok "+id.Hash {
						c.PropFail("placement-repack", fmt.Sprintf("re-pack of the destination after unpack(%s) gives %s", mode, resTok(id4, e4, pan4)), op)
					}
				}
			}
			if mode == "mount" {
				pls = append(pls, pl{dst: d, kind: "umount-only", mounted: true})
			}
			c.H("op:u:" + mode + ":" + pre)
			checkShelf("after unpack(" + mode + ")")
		case "p":
			if shelfRef == "" {
				tartrans.Unpack(ctx, id, "-", uf, rio.Placement_None, wh, rio.Monitor{})
				checkShelf("init")
			}
			pre := []string{"absent", "junk"}[len(pls)%2]
			if packPath != src {
				pre = "absent" // a plain-file shelf cannot be mounted over an existing directory (refused by mkDest, by design)
			}
			d := newDst(pre)
			pm := parentMtime(d)
			var jan placer.Janitor
			var e error
			switch x[1] {
			case "copy":
				jan, e = placer.CopyPlacer(fs.MustAbsolutePath(shelf), fs.MustAbsolutePath(d), true)
			case "copyro": // the placer API allows writable=false for a copy as well
				jan, e = placer.CopyPlacer(fs.MustAbsolutePath(shelf), fs.MustAbsolutePath(d), false)
			case "mountrw":
				var pfn placer.Placer
				pfn, e = placer.GetMountPlacer()
				if e == nil {
					jan, e = pfn(fs.MustAbsolutePath(shelf), fs.MustAbsolutePath(d), true)
				}
			case "bindro":
				jan, e = placer.BindPlacer(fs.MustAbsolutePath(shelf), fs.MustAbsolutePath(d), false)
			}
			if e != nil && envOvl && x[1] == "mountrw" {
				c.H("op:p:mountrw:refused-in-ovl-env")
				pls = append(pls, pl{dst: d, kind: x[1]})
				checkShelf("after a refused placement by " + x[1])
				continue
			}
			if e != nil {
				c.PropFail("placement-failed", "placer "+x[1]+" failed: "+e.Error(), op)
				pls = append(pls, pl{dst: d, kind: x[1]})
				continue
			}
			checkDst(d, "placement by "+x[1], true)
			if !parentMtime(d).Equal(pm) {
				c.PropFail("placement-parent-mtime", "placement by "+x[1]+" changed the mtime of the destination's parent", op)
			}
			pls = append(pls, pl{dst: d, jan: jan, kind: x[1], mounted: true})
			c.H("op:p:" + x[1])
			checkShelf("after placement by " + x[1])
		case "pp":
			// place by copy, write inside the placed tree (leaving the destination's own stat as it was), place the same shelf
			// by copy at the same destination again — no teardown in between: the second placement is faithful again
			if shelfRef == "" {
				tartrans.Unpack(ctx, id, "-", uf, rio.Placement_None, wh, rio.Monitor{})
				checkShelf("init")
			}
			d := newDst("absent")
			if _, e := placer.CopyPlacer(fs.MustAbsolutePath(shelf), fs.MustAbsolutePath(d), true); e != nil {
				continue
			}
			var rootSt syscall.Stat_t
			syscall.Lstat(d, &rootSt)
			if sn, e := Snapshot(d); e == nil {
				for _, en := range sn {
					pth := filepath.Join(d, en.Name)
					switch {
					case en.Kind == 'f' && en.Name != "":
						os.WriteFile(pth, append([]byte("scribbled:"), en.Content...), 0600)
						syscall.Chmod(pth, 0600)
					case en.Kind == 'f': // a plain-file ware: same size, same mtime, other bytes
						b := bytes.Repeat([]byte("S"), len(en.Content))
						if fh, e := os.OpenFile(pth, os.O_WRONLY, 0); e == nil {
							fh.Write(b)
							fh.Close()
						}
					case en.Kind == 'd' && en.Name != "":
						os.WriteFile(filepath.Join(pth, "left-by-user"), []byte("u"), 0644)
					}
				}
			}
			ts := []syscall.Timespec{{Sec: rootSt.Atim.Sec, Nsec: rootSt.Atim.Nsec}, {Sec: rootSt.Mtim.Sec, Nsec: rootSt.Mtim.Nsec}}
			syscall.UtimesNano(d, ts)
			jan2, e := placer.CopyPlacer(fs.MustAbsolutePath(shelf), fs.MustAbsolutePath(d), true)
			if e != nil {
				c.PropFail("placement-failed", "a second copy placement at a destination an earlier one sits at failed: "+e.Error(), op)
				continue
			}
			checkDst(d, "a second copy placement over an earlier one that was written into", true)
			pls = append(pls, pl{dst: d, jan: jan2, kind: "copy", mounted: true})
			c.H("op:pp")
			checkShelf("after a second copy placement at the same destination")
		case "bb":
			// the same destination placed and torn down again and again in one process (a daemon re-using a job directory),
			// by read-only bind and by the mount placer: after every teardown no mount remains and the content is gone
			if shelfRef == "" {
				tartrans.Unpack(ctx, id, "-", uf, rio.Placement_None, wh, rio.Monitor{})
				checkShelf("init")
			}
			if packPath != src {
				continue
			}
			d := newDst("absent")
			for round := 0; round < 3; round++ {
				for _, kind := range []string{"bindro", "mountrw"} {
					var jan placer.Janitor
					var e error
					if kind == "bindro" {
						jan, e = placer.BindPlacer(fs.MustAbsolutePath(shelf), fs.MustAbsolutePath(d), false)
					} else {
						var pfn placer.Placer
						if pfn, e = placer.GetMountPlacer(); e == nil {
							jan, e = pfn(fs.MustAbsolutePath(shelf), fs.MustAbsolutePath(d), true)
						}
					}
					if e != nil {
						if !(envOvl && kind == "mountrw") {
							c.PropFail("placement-failed", fmt.Sprintf("placement (%s) number %d at one destination failed: %v", kind, round+1, e), op)
						}
						continue
					}
					checkDst(d, fmt.Sprintf("placement (%s) number %d at one destination", kind, round+1), true)
					if e := jan.Teardown(); e != nil {
						c.PropFail("teardown-failed", fmt.Sprintf("teardown of placement (%s) number %d at one destination failed: %v", kind, round+1, e), op)
					}
					if mounted(d) {
						c.PropFail("mount-left", fmt.Sprintf("after the teardown of placement (%s) number %d at one destination a mount remains there", kind, round+1), op)
						for mounted(d) {
							if syscall.Unmount(d, 0) != nil {
								break
							}
						}
					} else if sn, e := Snapshot(d); e == nil && len(sn) > 1 && sn.Digest(false) == want.Digest(false) {
						c.PropFail("mount-left", fmt.Sprintf("after the teardown of placement (%s) number %d at one destination it still shows the placed content", kind, round+1), op)
					}
				}
			}
			c.H("op:bb")
			checkShelf("after repeated placements at one destination")
		case "nn":
			// a read-only placement whose destination lies inside another read-only placement (a ware placed into a directory
			// of a ware): nothing can be written through the inner one either, and the shelf stays what it is
			if shelfRef == "" {
				tartrans.Unpack(ctx, id, "-", uf, rio.Placement_None, wh, rio.Monitor{})
				checkShelf("init")
			}
			if packPath != src {
				continue
			}
			subdir := ""
			for _, e := range want {
				if e.Kind == 'd' && e.Name != "" && !strings.Contains(e.Name, "/") {
					subdir = e.Name
					break
				}
			}
			if subdir == "" {
				continue
			}
			d := newDst("absent")
			jOuter, e := placer.BindPlacer(fs.MustAbsolutePath(shelf), fs.MustAbsolutePath(d), false)
			if e != nil {
				continue
			}
			inner := filepath.Join(d, subdir)
			jInner, e := placer.BindPlacer(fs.MustAbsolutePath(shelf), fs.MustAbsolutePath(inner), false)
			if e == nil {
				wrote := os.WriteFile(filepath.Join(inner, "written-through-inner"), []byte("w"), 0644) == nil
				chm := syscall.Chmod(inner, 0700) == nil
				if sn, e2 := Snapshot(inner); e2 == nil {
					for _, en := range sn {
						if en.Kind == 'f' {
							if fh, e3 := os.OpenFile(filepath.Join(inner, en.Name), os.O_WRONLY|os.O_APPEND, 0); e3 == nil {
								fh.Write([]byte("APPENDED"))
								fh.Close()
								wrote = true
							}
							break
						}
					}
				}
				if wrote || chm {
					c.PropFail("shelf-changed", fmt.Sprintf("a read-only placement at a destination inside another read-only placement let a write (%v) / chmod (%v) through", wrote, chm), op)
				}
				checkShelf("after write attempts through a nested read-only placement")
				jInner.Teardown()
				os.Remove(filepath.Join(shelf, "written-through-inner"))
			}
			jOuter.Teardown()
			for _, m := range []string{inner, d} {
				for mounted(m) {
					if syscall.Unmount(m, 0) != nil {
						break
					}
				}
			}
			c.H("op:nn")
		case "w":
			var i int
			fmt.Sscan(x[1], &i)
			if i >= len(pls) || !pls[i].mounted {
				continue
			}
			d := pls[i].dst
			// pick a victim path inside the placed tree
			victim := d
			if sn, e := Snapshot(d); e == nil && len(sn) > 1 {
				victim = filepath.Join(d, sn[1+(i*7+len(o))%(len(sn)-1)].Name)
			}
			switch x[2] {
			case "write":
				os.WriteFile(filepath.Join(d, "written-by-user"), []byte("user"), 0644)
				if st, e := os.Lstat(victim); e == nil && st.Mode().IsRegular() {
					if fh, e := os.OpenFile(victim, os.O_WRONLY|os.O_APPEND, 0); e == nil {
						fh.Write([]byte("APPENDED"))
						fh.Close()
					}
				}
			case "truncate":
				if st, e := os.Lstat(victim); e == nil && st.Mode().IsRegular() {
					os.Truncate(victim, 0)
				}
				if st, e := os.Lstat(d); e == nil && st.Mode().IsRegular() {
					os.WriteFile(d, []byte("OVERWRITTEN"), 0644)
				}
			case "delete":
				os.RemoveAll(victim)
			case "chmod":
				syscall.Chmod(victim, 0711)
				syscall.Chmod(d, 0700)
			case "chown":
				os.Lchown(victim, 4321, 4321)
				os.Lchown(d, 4321, 4321)
			case "rename":
				os.Rename(victim, victim+".moved")
			case "mkdir":
				os.MkdirAll(filepath.Join(d, "newdir", "deep"), 0755)
			case "utimes":
				os.Chtimes(victim, time.Unix(5, 0), time.Unix(5, 0))
				os.Chtimes(d, time.Unix(5, 0), time.Unix(5, 0))
			}
			c.H("op:w:" + x[2] + ":" + pls[i].kind)
			checkShelf(fmt.Sprintf("after %s inside a %s placement", x[2], pls[i].kind))
		case "t":
			var i int
			fmt.Sscan(x[1], &i)
			if i >= len(pls) || !pls[i].mounted {
				continue
			}
			if pls[i].jan != nil {
				if e := pls[i].jan.Teardown(); e != nil {
					c.PropFail("teardown-failed", "teardown of a "+pls[i].kind+" placement failed: "+e.Error(), op)
				}
			} else {
				syscall.Unmount(pls[i].dst, 0)
			}
			pls[i].mounted = false
			// after teardown of a mount placement: no mount remains, the content is no longer shown
			if pls[i].kind != "copy" && pls[i].kind != "copyro" {
				if mounted(pls[i].dst) {
					c.PropFail("mount-left", "a mount remains at the destination after teardown", op)
				}
			}
			if pls[i].kind == "mountrw" || pls[i].kind == "bindro" {
				if sn, e := Snapshot(pls[i].dst); e == nil && len(sn) > 1 && sn.Digest(false) == want.Digest(false) {
					c.PropFail("mount-left", "the destination still shows the placed content after teardown", op)
				}
			}
			c.H("op:t:" + pls[i].kind)
			checkShelf("after teardown of a " + pls[i].kind + " placement")
		}
	}
	for _, p := range pls {
		if p.mounted {
			if p.jan != nil {
				p.jan.Teardown()
			} else {
				syscall.Unmount(p.dst, 0)
			}
		}
	}
	checkShelf("at the end")
	c.EmitR(op, "skip", "skip")
	c.Distinct(op)
}

func mounted(p string) bool {
	b, err := os.ReadFile("/proc/self/mounts")
	if err != nil {
		return false
	}
	for _, l := range strings.Split(string(b), "\n") {
		f := strings.Fields(l)
		if len(f) > 1 && f[1] == p {
			return true
		}
	}
	return false
}

func firstDiff(a, b string) string {
	al, bl := strings.Split(a, "\n"), strings.Split(b, "\n")
	for i := 0; i < len(al) && i < len(bl); i++ {
		if al[i] != bl[i] {
			return fmt.Sprintf("%q -> %q", al[i], bl[i])
		}
	}
	return fmt.Sprintf("%d lines -> %d lines", len(al), len(bl))
}

// placeSpecialRoot: a shelf whose root is a single special node (what a ware whose "." entry is a fifo or a device
// unpacks to) placed writable by the mount placer; chmod / chown / utimes through the placement; the shelf node must keep
// its attributes. Recipe: "place-special <p|c>".
func placeSpecialRoot(c *Ctx, op string) {
	kind := strings.Fields(op)[1]
	caseCounter++
	base := filepath.Join(c.Work, fmt.Sprintf("psr%d", caseCounter))
	defer rmrf(base)
	os.MkdirAll(filepath.Join(base, "area"), 0755)
	os.Setenv("RIO_BASE", filepath.Join(base, "riobase"))
	shelf, dst := filepath.Join(base, "shelfnode"), filepath.Join(base, "area", "dst")
	var e error
	if kind == "p" {
		e = syscall.Mkfifo(shelf, 0640)
	} else {
		e = syscall.Mknod(shelf, syscall.S_IFCHR|0640, 1<<8|3)
	}
	if e != nil {
		c.EmitR(op, "skip", "skip")
		return
	}
	os.Lchown(shelf, 3, 4)
	syscall.Chmod(shelf, 0640)
	os.Chtimes(shelf, time.Unix(1e9, 0), time.Unix(1e9, 0))
	ident := func() string {
		var st unix.Stat_t
		if unix.Lstat(shelf, &st) != nil {
			return "gone"
		}
		return fmt.Sprintf("mode=%o uid=%d gid=%d mtime=%d", st.Mode, st.Uid, st.Gid, st.Mtim.Sec)
	}
	before := ident()
	c.EmitR(op, "skip", "skip")
	pfn, err := placer.GetMountPlacer()
	if len(strings.Fields(op)) > 2 && strings.Fields(op)[2] == "aufs" { // the aufs placer's dispatch (no aufs mount is needed for a single node)
		pfn, err = placer.NewAufsPlacer(fs.MustAbsolutePath(filepath.Join(base, "aufswork")))
	}
	if err != nil {
		return
	}
	jan, err := pfn(fs.MustAbsolutePath(shelf), fs.MustAbsolutePath(dst), true)
	if err != nil {
		c.H("place-special:" + kind + ":refused")
		return
	}
	syscall.Chmod(dst, 0777)
	os.Lchown(dst, 7, 7)
	os.Chtimes(dst, time.Unix(5, 0), time.Unix(5, 0))
	if after := ident(); after != before {
		c.PropFail("shelf-changed", fmt.Sprintf("a shelf whose root is a %s node was placed writable (mount); chmod / chown / utimes through the placement changed the shelf node: %s -> %s", map[string]string{"p": "fifo", "c": "character device"}[kind], before, after), op)
	}
	if jan != nil {
		jan.Teardown()
	}
	for i := 0; i < 3 && mounted(dst); i++ {
		syscall.Unmount(dst, 0)
	}
	c.H("place-special:" + kind)
	c.Distinct(op)
}

// placeSymlinkRoot: a shelf whose root is a symlink to a file of the host (what a ware whose "." entry is a symlink
// unpacks to), placed by a mounting placer at a destination that is itself a symlink to another host file: mount(2)
// follows both. Nothing of the host may end up mounted anywhere, and the victim keeps showing its own content.
// Recipe: "place-symlink <mount|bindro|aufs>".
func placeSymlinkRoot(c *Ctx, op string) {
	how := strings.Fields(op)[1]
	caseCounter++
	base := filepath.Join(c.Work, fmt.Sprintf("psl%d", caseCounter))
	defer rmrf(base)
	os.MkdirAll(filepath.Join(base, "host"), 0755)
	os.MkdirAll(filepath.Join(base, "area"), 0755)
	os.Setenv("RIO_BASE", filepath.Join(base, "riobase"))
	secret, victim := filepath.Join(base, "host", "secret"), filepath.Join(base, "host", "victim")
	os.WriteFile(secret, []byte("secret"), 0600)
	os.WriteFile(victim, []byte("victim"), 0644)
	shelf := filepath.Join(base, "shelflink")
	os.Symlink(secret, shelf)
	c.EmitR(op, "skip", "skip")
	for _, dstKind := range []string{"absent", "link-to-victim"} {
		dst := filepath.Join(base, "area", "dst-"+dstKind)
		if dstKind == "link-to-victim" {
			os.Symlink(victim, dst)
		}
		var jan placer.Janitor
		var err error
		switch how {
		case "bindro":
			jan, err = placer.BindPlacer(fs.MustAbsolutePath(shelf), fs.MustAbsolutePath(dst), false)
		case "aufs":
			var pfn placer.Placer
			if pfn, err = placer.NewAufsPlacer(fs.MustAbsolutePath(filepath.Join(base, "aufswork"))); err == nil {
				jan, err = pfn(fs.MustAbsolutePath(shelf), fs.MustAbsolutePath(dst), true)
			}
		default:
			var pfn placer.Placer
			if pfn, err = placer.GetMountPlacer(); err == nil {
				jan, err = pfn(fs.MustAbsolutePath(shelf), fs.MustAbsolutePath(dst), true)
			}
		}
		if b, _ := os.ReadFile(victim); string(b) != "victim" || mounted(victim) {
			c.PropFail("mount-left", fmt.Sprintf("placing (%s) a shelf whose root is a symlink at a destination that is a symlink mounted the host file the shelf link names over the host file the destination link names (it now reads %q)", how, b), op)
		}
		if b, e := os.ReadFile(dst); e == nil && string(b) == "secret" && dstKind == "absent" {
			c.PropFail("placement-tree", fmt.Sprintf("placing (%s) a shelf whose root is a symlink shows the content of the host file the link names instead of a symlink", how), op)
		}
		c.H(fmt.Sprintf("place-symlink:%s:%s:err=%v", how, dstKind, err != nil))
		if jan != nil {
			jan.Teardown()
		}
		for i := 0; i < 3 && (mounted(dst) || mounted(victim)); i++ {
			syscall.Unmount(dst, 0)
			syscall.Unmount(victim, 0)
		}
	}
	c.Distinct(op)
}

// placeBusyDest: the destination already exists and holds something that cannot be removed — a mount point below it (an
// earlier mount input at dest/<sub>), an immutable file — when a ware is placed there by copy (cold and warm cache) or by
// mount. The placement is refused, or the destination shows exactly the ware's fileset: never the ware plus the leftover.
// Recipe: "place-busydest <mountpoint|immutable> <mode> <cold|warm>".
func placeBusyDest(c *Ctx, op string) {
	c.Begin(op)
	f := strings.Fields(op)
	what, mode, temp := f[1], f[2], f[3]
	caseCounter++
	base := filepath.Join(c.Work, fmt.Sprintf("pbd%d", caseCounter))
	defer rmrf(base)
	src, wh, dst, other := filepath.Join(base, "src"), filepath.Join(base, "wh"), filepath.Join(base, "area", "dst"), filepath.Join(base, "other")
	for _, d := range []string{filepath.Join(src, "d"), wh, filepath.Join(dst, "old-input"), other} {
		os.MkdirAll(d, 0755)
	}
	os.Setenv("RIO_CACHE", filepath.Join(base, "cache"))
	os.Setenv("RIO_BASE", filepath.Join(base, "riobase"))
	os.WriteFile(filepath.Join(src, "d", "f"), []byte("ware"), 0644)
	os.WriteFile(filepath.Join(src, "top"), []byte("top"), 0644)
	os.WriteFile(filepath.Join(other, "kept"), []byte("kept"), 0644)
	for _, p := range []string{"d/f", "d", "top", "."} { // whole seconds: what a tar header holds
		os.Chtimes(filepath.Join(src, p), time.Unix(1e9, 0), time.Unix(1e9, 0))
	}
	ctx := context.Background()
	id, err := tartrans.Pack(ctx, "tar", src, api.MustParseFilesetPackFilter(losslessPackStr), whAddr("ca", wh), rio.Monitor{})
	c.EmitR(op, "skip", "skip")
	if err != nil {
		return
	}
	want, _ := Snapshot(src)
	uf := api.MustParseFilesetUnpackFilter(losslessUnpackStr)
	whs := []api.WarehouseLocation{whAddr("ca", wh)}
	if temp == "warm" {
		tartrans.Unpack(ctx, id, "-", uf, rio.Placement_None, whs, rio.Monitor{})
	}
	leftover := filepath.Join(dst, "old-input")
	switch what {
	case "mountpoint":
		if syscall.Mount(other, leftover, "", syscall.MS_BIND, "") != nil {
			c.H("place-busydest:skipped")
			return
		}
		defer syscall.Unmount(leftover, syscall.MNT_DETACH)
	case "immutable":
		os.WriteFile(filepath.Join(leftover, "pinned"), []byte("x"), 0644)
		fd, e := unix.Open(filepath.Join(leftover, "pinned"), unix.O_RDONLY, 0)
		if e != nil {
			return
		}
		e = unix.IoctlSetPointerInt(fd, 0x40086602, 0x10) // FS_IMMUTABLE_FL
		unix.Close(fd)
		if e != nil {
			c.H("place-busydest:skipped")
			return
		}
		defer func() {
			if fd, e := unix.Open(filepath.Join(leftover, "pinned"), unix.O_RDONLY, 0); e == nil {
				unix.IoctlSetPointerInt(fd, 0x40086602, 0)
				unix.Close(fd)
			}
		}()
	}
	got, uerr, pan := safeCall(func() (api.WareID, error) {
		return tartrans.Unpack(ctx, id, dst, uf, rio.PlacementMode(mode), whs, rio.Monitor{})
	})
	c.H("place-busydest:" + what + ":" + mode + ":" + temp + ":" + strings.Fields(resTok(got, uerr, pan))[0])
	switch {
	case pan != "":
		c.PropFail("placement-failed", "placement onto a destination that holds a "+what+" panicked: "+pan, op)
	case uerr == nil:
		sn, _ := Snapshot(dst)
		if sn.Digest(true) != want.Digest(true) {
			extra := ""
			for _, e := range sn {
				if strings.HasPrefix(e.Name, "old-input") {
					extra = e.Name
					break
				}
			}
			c.PropFail("placement-tree", fmt.Sprintf("placement (%s, %s cache) onto a destination holding a %s answered %s, but the destination does not show the ware's fileset (left over: %q; first difference: %s)", mode, temp, what, got, extra, firstDiff(want.Digest(true), sn.Digest(true))), op)
		}
	}
	if mode == "mount" {
		syscall.Unmount(dst, 0)
	}
	c.Distinct(op)
}

func placeEngine(c *Ctx) {
	if ls := replayLines(); ls != nil {
		for _, op := range ls {
			if strings.HasPrefix(op, "place ") {
				placeExec(c, op)
			} else if strings.HasPrefix(op, "place-special ") {
				placeSpecialRoot(c, op)
			} else if strings.HasPrefix(op, "place-symlink ") {
				placeSymlinkRoot(c, op)
			} else if strings.HasPrefix(op, "place-busydest ") {
				placeBusyDest(c, op)
			}
		}
		return
	}
	placeSpecialRoot(c, "place-special p")
	placeSpecialRoot(c, "place-special c")
	placeSpecialRoot(c, "place-special p aufs")
	placeSpecialRoot(c, "place-special c aufs")
	placeSymlinkRoot(c, "place-symlink mount")
	placeSymlinkRoot(c, "place-symlink bindro")
	placeSymlinkRoot(c, "place-symlink aufs")
	for _, w := range []string{"mountpoint", "immutable"} {
		for _, m := range []string{"copy cold", "copy warm", "direct warm", "mount cold"} {
			placeBusyDest(c, "place-busydest "+w+" "+m)
		}
	}
	n, maxOps := 14, 10
	if c.Tier == "thorough" {
		n, maxOps = 200, 36
	}
	modes := []string{"direct", "copy", "none", "mount"}
	pres := []string{"absent", "junk", "foreign", "symlink"}
	places := []string{"copy", "mountrw", "bindro", "copyro"}
	writes := []string{"write", "truncate", "delete", "chmod", "chown", "rename", "mkdir", "utimes"}
	for k := 0; k < n; k++ {
		var fsx Fileset
		if k%5 == 4 { // a ware whose root is a single plain file
			fsx = Fileset{{Name: "", Kind: 'f', Perms: 0640, Uid: uint32(c.Intn(3000)), Gid: 77, Sec: int64(c.Intn(1 << 30)), Content: []byte(strings.Repeat("f", 1+c.Intn(500)))}}
		} else {
			fsx = c.GenFileset(GenOpts{MaxEntries: 8, Kinds: "fffdLp", SubSecond: true, BigIds: false, Setid: true, MaxContent: 600})
			sanitizeForRoundtrip(fsx, "tar")
			if k%3 == 0 { // root owned by the process itself, the shape a reused destination would betray
				fsx[0].Uid, fsx[0].Gid = uint32(os.Getuid()), uint32(os.Getgid())
			}
		}
		if k == 0 || k == 7 || (k > 14 && k%9 == 0) {
			// symlinks to directories of the ware itself — named so that they sort after their targets, relative and
			// absolute (re-rooted), each with an mtime of its own
			t := int64(1100000000 + c.Intn(1000000))
			fsx = Fileset{{Name: "", Kind: 'd', Perms: 0755, Uid: 3, Gid: 4, Sec: t},
				{Name: "data", Kind: 'd', Perms: 0750, Uid: 3, Gid: 4, Sec: t - 86400*900, Nsec: 5},
				{Name: "data/f", Kind: 'f', Perms: 0644, Uid: 3, Gid: 4, Sec: t - 50, Content: []byte("f")},
				{Name: "data/sub", Kind: 'd', Perms: 0700, Uid: 5, Gid: 4, Sec: t - 86400*30},
				{Name: "latest", Kind: 'L', Perms: 0777, Uid: 3, Gid: 4, Sec: t + 86400*700, Link: "data"},
				{Name: "zabs", Kind: 'L', Perms: 0777, Uid: 3, Gid: 4, Sec: t + 86400*300, Link: "/data/sub"},
				{Name: "zfile", Kind: 'L', Perms: 0777, Uid: 3, Gid: 4, Sec: t + 86400*100, Link: "data/f"}}
		}
		var ops []string
		if k%6 == 3 {
			ops = append(ops, "env:ovlwork")
		}
		if k%2 == 1 { // cold cache first warmed by an unpack with an altering filter
			ops = append(ops, "alt:"+[]string{"copy", "none", "mount"}[c.Intn(3)])
		}
		// fixed prefix: the route x pre-state combinations that matter most, then the writable-mount life cycle
		ops = append(ops, "u:copy:foreign", "u:copy:junk", "u:direct:absent", "u:none:absent")
		ops = append(ops, "pp", "bb", "nn")
		if k%5 != 4 {
			ops = append(ops, "u:mount:junk", "u:mount:symlink", "u:copy:symlink")
		}
		// C10: routes and histories
		l := 2 + c.Intn(maxOps/2)
		for i := 0; i < l; i++ {
			if c.Chance(1, 6) {
				ops = append(ops, "other")
			}
			if c.Chance(1, 8) {
				ops = append(ops, "alt:"+modes[1+c.Intn(3)])
			}
			ops = append(ops, fmt.Sprintf("u:%s:%s", modes[c.Intn(4)], pres[c.Intn(len(pres))]))
		}
		ops = append(ops, "again:"+[]string{"stacked", "foreign-unmount"}[k%2])
		if k%2 == 0 {
			ops = append(ops, "ubad:mount")
		} else {
			ops = append(ops, "ubad:copy")
		}
		// C11: placements, writes, teardowns, placements again
		np := 0
		for _, fixed := range []string{"p:mountrw", "w:1000:truncate", "w:1000:chmod", "w:1000:chown", "w:1000:utimes", "t:1000", "p:copy", "w:1001:write", "p:bindro", "w:1002:chmod",
			"p:copyro", "w:1003:chmod", "w:1003:chown", "w:1003:write", "w:1003:utimes", "t:1003"} {
			ops = append(ops, fixed)
			if strings.HasPrefix(fixed, "p:") {
				np++
			}
		}
		for i := 0; i < maxOps; i++ {
			switch c.Intn(4) {
			case 0:
				ops = append(ops, "p:"+places[c.Intn(len(places))])
				np++
			case 1, 2:
				if np > 0 {
					ops = append(ops, fmt.Sprintf("w:%d:%s", 1000+c.Intn(np), writes[c.Intn(len(writes))]))
				}
			case 3:
				if np > 0 {
					ops = append(ops, fmt.Sprintf("t:%d", 1000+c.Intn(np)))
				}
			}
		}
		// placement indexes: mount-mode unpacks also enter the list; re-index the C11 ones after the fact
		mounts := 0
		for _, o := range ops {
			if strings.HasPrefix(o, "u:mount:") {
				mounts++
			}
		}
		for i, o := range ops {
			if strings.HasPrefix(o, "w:1") || strings.HasPrefix(o, "t:1") {
				x := strings.Split(o, ":")
				var idx int
				fmt.Sscan(x[1], &idx)
				x[1] = fmt.Sprint(idx - 1000 + mounts)
				ops[i] = strings.Join(x, ":")
			}
		}
		envTok := ""
		if k%4 == 2 {
			envTok = " env:RIO_MOUNT_PLACER=" + []string{"bind", "overlay", "copy", "aufs"}[(k/4)%4]
		}
		placeExec(c, fmt.Sprintf("place %s %s%s", strings.Join(ops, ","), filesetTok(fsx), envTok))
	}
}
