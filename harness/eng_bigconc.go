package main

import (
	"bytes"
	"context"
	"fmt"
	"os"
	"path/filepath"
	"sync"

	api "github.com/polydawn/go-timeless-api"
	"github.com/polydawn/go-timeless-api/rio"
	tartrans "github.com/polydawn/rio/transmat/tar"
)

func init() { engines["bigconc"] = bigConcEngine }

// bigconc: several unpacks running truly in parallel in one process, each ware holding regular files of a few MiB with a
// pattern of its own.  Round A (cold cache, placement none): every unpack succeeds and every shelf holds exactly its
// ware's bytes (C09).  Round B (warm cache, placement copy, all at once): every destination holds exactly its ware's bytes
// (C10).  Whatever is shared between concurrent unpacks inside the unpack engine shows here.
func bigConcEngine(c *Ctx) {
	op := "bigconc 3x3x3MiB"
	c.Begin(op)
	caseCounter++
	base := filepath.Join(c.Work, fmt.Sprintf("bc%d", caseCounter))
	defer rmrf(base)
	wh := filepath.Join(base, "wh")
	os.MkdirAll(wh, 0755)
	ctx := context.Background()
	pf := api.MustParseFilesetPackFilter(losslessPackStr)
	uf := api.MustParseFilesetUnpackFilter(losslessUnpackStr)
	const nWares, nFiles, size = 3, 3, 3 << 20
	pattern := func(w, f int) []byte {
		b := make([]byte, size+w*4099+f*17)
		for i := range b {
			b[i] = byte(0x40 + w*16 + f) // one byte value per (ware, file): a foreign chunk is visible at a glance
		}
		return b
	}
	ids := make([]api.WareID, nWares)
	for w := 0; w < nWares; w++ {
		src := filepath.Join(base, fmt.Sprintf("src%d", w))
		os.MkdirAll(src, 0755)
		for f := 0; f < nFiles; f++ {
			os.WriteFile(filepath.Join(src, fmt.Sprintf("big%d", f)), pattern(w, f), 0644)
		}
		os.WriteFile(filepath.Join(src, "small"), []byte{byte(w)}, 0644)
		id, err := tartrans.Pack(ctx, "tar", src, pf, whAddr("ca", wh), rio.Monitor{})
		if err != nil {
			c.EmitR(op, "skip", "skip")
			return
		}
		ids[w] = id
	}
	checkTree := func(dir string, w int) string {
		for f := 0; f < nFiles; f++ {
			b, err := os.ReadFile(filepath.Join(dir, fmt.Sprintf("big%d", f)))
			if err != nil {
				return err.Error()
			}
			want := pattern(w, f)
			if !bytes.Equal(b, want) {
				at := 0
				for at < len(b) && at < len(want) && b[at] == want[at] {
					at++
				}
				got := byte(0)
				if at < len(b) {
					got = b[at]
				}
				return fmt.Sprintf("big%d differs from what was packed at offset %d of %d (byte 0x%02x, the ware's pattern is 0x%02x)", f, at, len(want), got, want[0])
			}
		}
		return ""
	}
	rounds := 2
	if c.Tier == "thorough" {
		rounds = 8
	}
	for r := 0; r < rounds; r++ {
		cache := filepath.Join(base, fmt.Sprintf("cache%d", r))
		os.Setenv("RIO_CACHE", cache)
		os.Setenv("RIO_BASE", filepath.Join(base, "riobase"))
		// --- A: cold cache, all at once
		res := make([]string, nWares)
		var wg sync.WaitGroup
		for w := 0; w < nWares; w++ {
			wg.Add(1)
			go func(w int) {
				defer wg.Done()
				id, err, pan := safeCall(func() (api.WareID, error) {
					return tartrans.Unpack(ctx, ids[w], "-", uf, rio.Placement_None, []api.WarehouseLocation{whAddr("ca", wh)}, rio.Monitor{})
				})
				res[w] = resTok(id, err, pan)
			}(w)
		}
		wg.Wait()
		for w := 0; w < nWares; w++ {
			shelf := filepath.Join(cache, "tar", "fileset", ids[w].Hash[0:3], ids[w].Hash[3:6], ids[w].Hash)
			if res[w] != "ok "+ids[w].Hash {
				c.PropFail("concurrent-unpack-failed", fmt.Sprintf("%d unpacks of sound wares (files of 3 MiB) ran in parallel on a cold cache; the one of ware %d answered %s", nWares, w, res[w]), op)
			} else if d := checkTree(shelf, w); d != "" {
				c.PropFail("cache-shelf-tree", fmt.Sprintf("after %d parallel unpacks the shelf of ware %d: %s", nWares, w, d), op)
			}
		}
		if left, _ := filepath.Glob(filepath.Join(cache, "tar", "fileset", ".tmp.*")); len(left) > 0 {
			c.PropFail("cache-temp-left", fmt.Sprintf("temp dirs left after parallel unpacks: %d", len(left)), op)
		}
		// --- B: warm cache, copy placements all at once
		for w := 0; w < nWares; w++ {
			wg.Add(1)
			go func(w int) {
				defer wg.Done()
				id, err, pan := safeCall(func() (api.WareID, error) {
					return tartrans.Unpack(ctx, ids[w], filepath.Join(base, fmt.Sprintf("dst-%d-%d", r, w)), uf, rio.Placement_Copy, []api.WarehouseLocation{whAddr("ca", wh)}, rio.Monitor{})
				})
				res[w] = resTok(id, err, pan)
			}(w)
		}
		wg.Wait()
		for w := 0; w < nWares; w++ {
			dst := filepath.Join(base, fmt.Sprintf("dst-%d-%d", r, w))
			if res[w] != "ok "+ids[w].Hash {
				c.PropFail("placement-failed", fmt.Sprintf("%d copy placements ran in parallel; the one of ware %d answered %s", nWares, w, res[w]), op)
			} else if d := checkTree(dst, w); d != "" {
				c.PropFail("placement-tree", fmt.Sprintf("%d copy placements ran in parallel; the destination of ware %d: %s", nWares, w, d), op)
			}
			rmrf(dst)
		}
		rmrf(cache)
		c.H("bigconc:round")
	}
	c.EmitR(op, "skip", "skip")
	c.Distinct(op)
}
