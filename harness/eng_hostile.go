package main

import (
	"sort"
	"unsafe"

	"context"
	"fmt"
	ziptrans "github.com/polydawn/rio/transmat/zip"
	"golang.org/x/sys/unix"
	"os"
	"os/exec"
	"path/filepath"
	"strings"
	"syscall"

	api "github.com/polydawn/go-timeless-api"
	"github.com/polydawn/go-timeless-api/rio"
	tartrans "github.com/polydawn/rio/transmat/tar"
)

func init() { engines["hostile"] = hostileEngine }

// hostileExec: recipe "hostile <mode: direct|copy|none|mount|cli> <pre: absent|empty|populated> <rawhdr;rawhdr;...>"
// "@V@" in link targets / names stands for the absolute path of the victim directory outside the target.
func hostileExec(c *Ctx, op string) {
	f := strings.Fields(op)
	mode, pre := f[1], f[2]
	caseCounter++
	base := filepath.Join(c.Work, fmt.Sprintf("ho%d", caseCounter))
	defer rmrf(base)
	sandbox := filepath.Join(base, "sandbox")
	target := filepath.Join(sandbox, "target")
	victim := filepath.Join(sandbox, "victim")
	whDir := filepath.Join(base, "wh")
	os.MkdirAll(victim, 0755)
	os.MkdirAll(whDir, 0755)
	os.WriteFile(filepath.Join(victim, "passwd"), []byte("root:x:0:0"), 0644)
	os.Mkdir(filepath.Join(victim, "dir"), 0755)
	os.WriteFile(filepath.Join(sandbox, "neighbour"), []byte("n"), 0600)
	// neighbours whose names derive from the target's: nothing next to the target is rio's to use
	for _, sib := range []string{"target.old", "target.bak", "target.tmp", "target~", ".target.tmp", "target.new", ".tmp.target"} {
		os.MkdirAll(filepath.Join(sandbox, sib, "sub"), 0755)
		os.WriteFile(filepath.Join(sandbox, sib, "precious"), []byte(sib), 0644)
		os.WriteFile(filepath.Join(sandbox, sib, "sub", "more"), []byte("m"), 0600)
	}
	os.Setenv("RIO_CACHE", filepath.Join(base, "cache"))
	os.Setenv("RIO_BASE", filepath.Join(base, "riobase"))
	switch pre {
	case "empty":
		os.Mkdir(target, 0755)
	case "linkfile": // the target path itself is a symlink to a file outside
		os.Symlink(filepath.Join(victim, "passwd"), target)
	case "linkdir": // … to a directory outside
		os.Symlink(filepath.Join(victim, "dir"), target)
	case "below-missing": // the target lies below directories that do not exist: they are outside the target too
		target = filepath.Join(sandbox, "missing", "deeper", "target")
	case "populated":
		os.Mkdir(target, 0755)
		os.Mkdir(filepath.Join(target, "d"), 0755)
		os.WriteFile(filepath.Join(target, "d", "old"), []byte("old"), 0644)
		os.Symlink(victim, filepath.Join(target, "prelink"))
		os.Symlink(filepath.Join(victim, "passwd"), filepath.Join(target, "prefile"))
		// a plain file that shares its inode with a file outside the target (and a directory entry of the same kind)
		os.Link(filepath.Join(victim, "passwd"), filepath.Join(target, "d", "hard"))
		os.Link(filepath.Join(sandbox, "neighbour"), filepath.Join(target, "hard2"))
	}
	var hdrs []RawHdr
	if f[3] != "-" {
		for _, t := range strings.Split(f[3], ";") {
			h := parseRawHdr(t)
			h.Name = strings.ReplaceAll(h.Name, "@V@", victim)
			h.Link = strings.ReplaceAll(h.Link, "@V@", victim)
			hdrs = append(hdrs, h)
		}
	}
	stream, err := encodeTar(hdrs, "")
	if err != nil {
		stream, err = encodeTar(hdrs, "gnu")
		if err != nil {
			c.EmitR(op, "skip", "skip")
			return
		}
	}
	warePath := filepath.Join(whDir, "ware.tar")
	os.WriteFile(warePath, stream, 0644)
	// what id does the ware have (so that the request is "legitimate")?
	sid, serr, span := safeCall(func() (api.WareID, error) {
		return tartrans.Scan(context.Background(), "tar", api.MustParseFilesetUnpackFilter(losslessUnpackStr), rio.Placement_Direct, api.WarehouseLocation("file://"+warePath), rio.Monitor{})
	})
	if serr != nil || span != "" {
		sid = api.WareID{Type: "tar", Hash: "3vuuiiEUjwwYaRFuLUXh9Sb3DkTFP4RCnCmRmdEDBT3GZ9mP5ShzmUgGm4hgYEUDjb"}
	}
	before, _ := Snapshot(sandbox)
	xBefore := xattrListing(sandbox, target)
	var res string
	uf := api.MustParseFilesetUnpackFilter(losslessUnpackStr)
	if mode == "zip" {
		// the zip transmat spools the ware into a temp file first: (a) a ware id whose hash part carries path segments must
		// not steer that file anywhere, (b) temp names seen in one run are planted as symlinks to the victim before the next
		tmp := filepath.Join(sandbox, "tmp")
		os.MkdirAll(tmp, 0755)
		oldTmp := os.Getenv("TMPDIR")
		os.Setenv("TMPDIR", tmp)
		defer os.Setenv("TMPDIR", oldTmp)
		zstream, zerr := encodeZip(hdrs)
		if zerr != nil {
			c.EmitR(op, "skip", "skip")
			return
		}
		zpath := filepath.Join(whDir, "ware.zip")
		os.WriteFile(zpath, zstream, 0644)
		wh := []api.WarehouseLocation{api.WarehouseLocation("file://" + zpath)}
		zid, _, _ := safeCall(func() (api.WareID, error) {
			return ziptrans.Scan(context.Background(), "zip", uf, rio.Placement_Direct, wh[0], rio.Monitor{})
		})
		if zid.Hash == "" {
			zid = api.WareID{Type: "zip", Hash: "3vuuiiEUjwwYaRFuLUXh9Sb3DkTFP4RCnCmRmdEDBT3GZ9mP5ShzmUgGm4hgYEUDjb"}
		}
		before, _ = Snapshot(sandbox)
		ifd, _ := unix.InotifyInit1(unix.IN_NONBLOCK)
		if ifd >= 0 {
			unix.InotifyAddWatch(ifd, tmp, unix.IN_CREATE)
		}
		run := func(id api.WareID, pm rio.PlacementMode) string {
			os.RemoveAll(target)
			_, e, pan := safeCall(func() (api.WareID, error) {
				return ziptrans.Unpack(context.Background(), id, target, uf, pm, wh, rio.Monitor{})
			})
			if pan != "" {
				c.PropFail("unpack-panic", "zip unpack of a hostile ware / ware id panicked: "+pan, op)
				return "panic"
			}
			if e != nil {
				return "err " + catOf(e)
			}
			return "ok"
		}
		res = run(zid, rio.Placement_Direct)
		// names created in $TMPDIR during that run
		var seen []string
		if ifd >= 0 {
			buf := make([]byte, 65536)
			for {
				n, e := unix.Read(ifd, buf)
				if n <= 0 || e != nil {
					break
				}
				for off := 0; off+unix.SizeofInotifyEvent <= n; {
					ev := (*unix.InotifyEvent)(unsafe.Pointer(&buf[off]))
					nameLen := int(ev.Len)
					name := strings.TrimRight(string(buf[off+unix.SizeofInotifyEvent:off+unix.SizeofInotifyEvent+nameLen]), "\x00")
					if name != "" {
						seen = append(seen, name)
					}
					off += unix.SizeofInotifyEvent + nameLen
				}
			}
			unix.Close(ifd)
		}
		c.H(fmt.Sprintf("zip-tmpnames:%d", len(seen)))
		for _, n := range seen {
			os.Remove(filepath.Join(tmp, n))
			os.Symlink(filepath.Join(victim, "passwd"), filepath.Join(tmp, n))
		}
		run(zid, rio.Placement_Direct)
		run(zid, rio.Placement_Copy)
		for _, h := range []string{"aaabbbX/../../victim/passwd", "../victim/passwd", "aaa/bbb/../../../neighbour", "/" + filepath.Join(victim, "passwd")} {
			run(api.WareID{Type: "zip", Hash: h}, rio.Placement_Direct)
			run(api.WareID{Type: "zip", Hash: h}, rio.Placement_Copy)
		}
		os.RemoveAll(tmp)
	} else if mode == "cli" {
		cmd := exec.Command(os.Getenv("RIO_BIN"), "unpack", sid.String(), target, "--source=file://"+warePath, "--filters", losslessUnpackStr, "--placer=direct")
		cmd.Env = os.Environ()
		out, err := cmd.CombinedOutput()
		res = "ok"
		if err != nil {
			res = "err"
			if ee, ok := err.(*exec.ExitError); ok && ee.ExitCode() == 2 {
				res = "crash"
				c.PropFail("cli-crash", "the rio binary crashed (exit 2) on a hostile ware: "+lastLine(string(out)), op)
			}
		}
	} else {
		_, e, pan := safeCall(func() (api.WareID, error) {
			return tartrans.Unpack(context.Background(), sid, target, uf, rio.PlacementMode(mode), []api.WarehouseLocation{api.WarehouseLocation("file://" + warePath)}, rio.Monitor{})
		})
		switch {
		case pan != "":
			res = "panic"
			c.PropFail("unpack-panic", "unpack of a hostile ware panicked: "+pan, op)
		case e != nil:
			res = "err " + catOf(e)
		default:
			res = "ok"
		}
	}
	if ms := mountsUnder(victim); len(ms) > 0 || mounted(filepath.Join(victim, "passwd")) {
		c.PropFail("escape", fmt.Sprintf("unpack(%s) onto a %s target mounted something outside the target: on the victim %v", mode, pre, ms), op)
		unmountAllUnder(victim)
	}
	if mode == "mount" {
		syscall.Unmount(target, 0)
	}
	after, _ := Snapshot(sandbox)
	// everything in the sandbox other than the target subtree must be byte- and attribute-identical
	outside := func(fs Fileset) Fileset {
		var o Fileset
		for _, e := range fs {
			if e.Name == "target" || strings.HasPrefix(e.Name, "target/") || e.Name == "tmp" || strings.HasPrefix(e.Name, "tmp/") {
				continue
			}
			if e.Name == "" { // the sandbox dir itself: its mtime legitimately changes when `target` is created or replaced
				e.Sec, e.Nsec = 0, 0
			}
			o = append(o, e)
		}
		return o
	}
	// the target itself must still be a directory (or absent), never a link to elsewhere
	for _, e := range after {
		if e.Name == "target" && e.Kind == 'L' {
			// a root entry that is a symlink makes an absent target path a symlink: the object created is the
			// target itself, nothing outside is touched (links may point anywhere): counted, not a violation
			c.H("target-became-symlink")
		}
	}
	if d := DiffFilesets(outside(before), outside(after), true); d != "" {
		c.PropFail("escape", "unpack changed something outside the target: "+d, op)
	}
	if xAfter := xattrListing(sandbox, target); xAfter != xBefore {
		c.PropFail("escape", "unpack changed extended attributes of an object outside the target: "+firstDiff(xBefore, xAfter), op)
	}
	// a successful unpack of an archive with a climbing / absolute / through-link entry is a violation too
	c.H("mode:" + mode + ":" + strings.Fields(res)[0])
	c.EmitR(op, "skip", "skip")
	c.Distinct(op)
}

// xattrListing: "path: key=value ..." for every object under root that is not inside `skip` (no link is followed).
func xattrListing(root, skip string) string {
	var sb strings.Builder
	filepath.Walk(root, func(p string, fi os.FileInfo, err error) error {
		if err != nil {
			return nil
		}
		if p == skip && fi.IsDir() {
			return filepath.SkipDir
		}
		if p == skip {
			return nil
		}
		buf := make([]byte, 4096)
		n, e := unix.Llistxattr(p, buf)
		if e != nil || n <= 0 {
			return nil
		}
		var keys []string
		for _, k := range strings.Split(strings.TrimRight(string(buf[:n]), "\x00"), "\x00") {
			v := make([]byte, 1024)
			m, _ := unix.Lgetxattr(p, k, v)
			if m < 0 {
				m = 0
			}
			keys = append(keys, k+"="+hx(string(v[:m])))
		}
		sort.Strings(keys)
		sb.WriteString(p + ": " + strings.Join(keys, " ") + "\n")
		return nil
	})
	return sb.String()
}

func lastLine(s string) string {
	ls := strings.Split(strings.TrimSpace(s), "\n")
	return ls[len(ls)-1]
}

func (c *Ctx) hostileHdrs() []RawHdr {
	var hs []RawHdr
	names := []string{"a", "b", "d", "d/x", "l", "l/x", "d/l", "d/l/y", "prelink/x", "prefile", "d/old", "e/f/g"}
	linkT := []string{"@V@", "@V@/passwd", "@V@/dir", "../victim", "../victim/passwd", "../../../../../../..", "/", "..", ".", "d", "../target/../victim", "l", "/proc/self/cwd"}
	n := 1 + c.Intn(6)
	if c.Chance(2, 3) {
		hs = append(hs, RawHdr{Name: "./", Typeflag: '5', Mode: 0755})
	}
	for i := 0; i < n; i++ {
		nm := names[c.Intn(len(names))]
		switch c.Intn(10) {
		case 0:
			nm = "../" + nm
		case 1:
			nm = "@V@/" + nm // absolute
		case 2:
			nm = nm + "/../../victim/new"
		case 3:
			nm = "./" + nm + "/"
		}
		h := RawHdr{Name: nm, Mode: int64([]int{0644, 0755, 04755, 06777, 0}[c.Intn(5)]), Uid: []int{0, 0, 1234}[c.Intn(3)], Gid: []int{0, 5678}[c.Intn(2)], Sec: 1e9}
		if c.Chance(1, 5) {
			h.Xattrs = map[string]string{"user.h": "x"}
		}
		switch c.Intn(7) {
		case 0, 1:
			h.Typeflag = '2'
			h.Link = linkT[c.Intn(len(linkT))]
		case 2:
			h.Typeflag = '5'
		case 3:
			h.Typeflag = '1'
			h.Link = "@V@/passwd"
		default:
			h.Typeflag = '0'
			h.Content = []byte("PWNED")
		}
		hs = append(hs, h)
	}
	return hs
}

func hostileEngine(c *Ctx) {
	if ls := replayLines(); ls != nil {
		for _, op := range ls {
			if strings.HasPrefix(op, "hostile ") {
				hostileExec(c, op)
			}
		}
		return
	}
	n := 60
	if c.Tier == "thorough" {
		n = 1500
	}
	modes := []string{"direct", "direct", "copy", "none", "mount", "cli"}
	pres := []string{"absent", "empty", "populated"}
	// permanent corpus: the shapes that matter
	lnk := func(name, target string, mode int64, uid int) RawHdr {
		return RawHdr{Name: name, Typeflag: '2', Link: target, Mode: mode, Uid: uid, Sec: 1e9}
	}
	file := func(name string) RawHdr {
		return RawHdr{Name: name, Typeflag: '0', Mode: 0644, Content: []byte("PWNED"), Sec: 1e9}
	}
	dir := func(name string) RawHdr { return RawHdr{Name: name, Typeflag: '5', Mode: 0755, Sec: 1e9} }
	corpus := [][]RawHdr{
		{lnk(".", "@V@", 0777, 0), file("./pwned")},            // root entry is a symlink, then a child
		{lnk("./", "@V@", 04777, 1234)},                        // root symlink with setid bits and a foreign owner (re-chmod follows)
		{dir("./"), lnk("l", "@V@", 0777, 0), file("l/pwned")}, // through a link placed by an earlier entry
		{dir("./"), lnk("l", "../victim", 0777, 0), dir("l/newdir")},
		{dir("./"), lnk("l", "@V@/passwd", 06777, 1234)}, // symlink with setid bits + foreign owner: chmod through the link
		{dir("./"), file("../victim/pwned")},
		{dir("./"), file("@V@/pwned")},
		{dir("./"), file("a/../../victim/pwned")},
		{dir("./"), lnk("d", "@V@", 0777, 0), lnk("d/passwd", "x", 0777, 0)},
		{dir("./"), file("prelink/pwned")},     // pre-existing link in the target
		{dir("./"), file("prefile")},           // pre-existing link at the leaf
		{dir("./"), dir("d/"), file("d/hard")}, // pre-existing plain file whose inode is shared with the outside
		{dir("./"), file("hard2"), dir("d/"), RawHdr{Name: "d/hard", Typeflag: '0', Mode: 0600, Uid: 4242, Gid: 4242, Sec: 2e9}},
		{dir("./"), lnk("a", "b", 0777, 0), lnk("b", "@V@", 0777, 0), file("a/pwned")},
		{dir("./"), RawHdr{Name: "hl", Typeflag: '1', Link: "@V@/passwd"}},
		{lnk("x/..", "@V@", 0777, 0), file("pwned")},
		// an entry that is not a directory bearing the name of a directory already there (a/b makes a; then a link, a pipe,
		// a device called a): mklink / mknod answer EEXIST in shapes of their own
		{dir("./"), file("a/b"), lnk("a", "x", 0777, 0)},
		{dir("./"), file("a/b"), RawHdr{Name: "a", Typeflag: '6', Mode: 0644, Sec: 1e9}},
		{dir("./"), file("a/b"), RawHdr{Name: "a", Typeflag: '3', Mode: 0600, Maj: 1, Min: 3, Sec: 1e9}},
		{dir("./"), dir("d/"), lnk("d", "elsewhere", 0777, 0), RawHdr{Name: "d", Typeflag: '4', Mode: 0600, Maj: 8, Min: 0, Sec: 1e9}},
		// entries that carry extended attributes: on a link to the outside, on the root link, on a file reached through a link
		{dir("./"), RawHdr{Name: "l", Typeflag: '2', Link: "@V@/passwd", Mode: 0777, Sec: 1e9, Xattrs: map[string]string{"user.pwned": "1"}}},
		{dir("./"), RawHdr{Name: "l", Typeflag: '2', Link: "../victim/dir", Mode: 0777, Sec: 1e9, Xattrs: map[string]string{"user.pwned": "1", "trusted.overlay.opaque": "y"}}},
		{RawHdr{Name: ".", Typeflag: '2', Link: "@V@", Mode: 0777, Sec: 1e9, Xattrs: map[string]string{"user.root": "r"}}},
		{dir("./"), RawHdr{Name: "prefile", Typeflag: '0', Mode: 0644, Sec: 1e9, Content: []byte("P"), Xattrs: map[string]string{"user.pwned": "2"}}},
		{dir("./"), RawHdr{Name: "d/", Typeflag: '5', Mode: 0755, Sec: 1e9}, RawHdr{Name: "d/hard", Typeflag: '0', Mode: 0644, Sec: 1e9, Content: []byte("P"), Xattrs: map[string]string{"user.pwned": "3"}}},
	}
	// wares whose root is a special file, a plain file or a directory, placed onto a target path that is a symlink to the outside
	for _, hs := range [][]RawHdr{{{Name: ".", Typeflag: '6', Mode: 0644, Sec: 1e9}}, {{Name: ".", Typeflag: '3', Mode: 0600, Maj: 1, Min: 3, Sec: 1e9}}, {file(".")}, {dir("./"), file("x")},
		{lnk(".", "elsewhere", 0777, 0)}} {
		for _, m := range []string{"mount", "copy", "direct"} {
			for _, p := range []string{"linkfile", "linkdir"} {
				hostileExec(c, fmt.Sprintf("hostile %s %s %s", m, p, hdrsTok(hs)))
			}
		}
	}
	for _, hs := range [][]RawHdr{{dir("./"), file("x")}, {dir("./"), file("../escape")}, {file(".")}} {
		for _, m := range []string{"direct", "copy", "mount", "cli"} {
			hostileExec(c, fmt.Sprintf("hostile %s below-missing %s", m, hdrsTok(hs)))
		}
	}
	hostileExec(c, fmt.Sprintf("hostile zip below-missing %s", hdrsTok([]RawHdr{dir("./"), file("x")})))
	for i, hs := range corpus {
		if i%4 == 0 || i < 3 {
			hostileExec(c, fmt.Sprintf("hostile zip absent %s", hdrsTok(hs)))
		}
		for _, m := range []string{"direct", "copy", "cli"} {
			for _, p := range pres {
				hostileExec(c, fmt.Sprintf("hostile %s %s %s", m, p, hdrsTok(hs)))
			}
		}
	}
	for k := 0; k < n; k++ {
		hostileExec(c, fmt.Sprintf("hostile %s %s %s", modes[c.Intn(len(modes))], pres[c.Intn(3)], hdrsTok(c.hostileHdrs())))
	}
}
