package main

import (
	"archive/zip"
	"bytes"
	"context"
	"fmt"
	"io"
	"os"
	"path/filepath"
	"strings"
	"time"

	api "github.com/polydawn/go-timeless-api"
	"github.com/polydawn/go-timeless-api/rio"
	"github.com/polydawn/refmt/misc"
	"github.com/polydawn/rio/fs"
	nilFS "github.com/polydawn/rio/fs/nilfs"
	ziptrans "github.com/polydawn/rio/transmat/zip"
)

func init() { engines["unpackzip"] = unpackZipEngine }

// zipModeOf: the os.FileMode a raw header's type flag and permission bits stand for
func zipModeOf(h RawHdr) os.FileMode {
	m := os.FileMode(h.Mode & 0777)
	if h.Mode&04000 != 0 {
		m |= os.ModeSetuid
	}
	if h.Mode&02000 != 0 {
		m |= os.ModeSetgid
	}
	if h.Mode&01000 != 0 {
		m |= os.ModeSticky
	}
	switch h.Typeflag {
	case '5':
		m |= os.ModeDir
	case '2':
		m |= os.ModeSymlink
	case '3':
		m |= os.ModeDevice | os.ModeCharDevice
	case '4':
		m |= os.ModeDevice
	case '6':
		m |= os.ModeNamedPipe
	case 'S':
		m |= os.ModeSocket
	case '1', 'Z':
		m |= os.ModeIrregular
	case 'C':
		m |= os.ModeCharDevice // without ModeDevice
	}
	return m
}

// encodeZip writes the raw headers with archive/zip: names verbatim, unix mode, the owner blocks rio writes, Modified time.
func encodeZip(hdrs []RawHdr) ([]byte, error) {
	var buf bytes.Buffer
	zw := zip.NewWriter(&buf)
	for _, h := range hdrs {
		var m fs.Metadata
		m.Name = fs.MustRelPath("x")
		m.Type = fs.Type_File
		m.Uid, m.Gid = uint32(h.Uid), uint32(h.Gid)
		var oh zip.FileHeader
		ziptrans.MetadataToZipHdr(&m, &oh)
		fh := &zip.FileHeader{Name: h.Name, Method: zip.Deflate, Extra: oh.Extra, Modified: time.Unix(h.Sec, int64(h.Nsec)).UTC()}
		if h.Uid < 0 { // no owner blocks at all
			fh.Extra = nil
		}
		fh.SetMode(zipModeOf(h))
		w, err := zw.CreateHeader(fh)
		if err != nil {
			return nil, err
		}
		switch h.Typeflag {
		case '2':
			w.Write([]byte(h.Link))
		case '5':
		default:
			w.Write(h.Content)
		}
	}
	if err := zw.Close(); err != nil {
		return nil, err
	}
	return buf.Bytes(), nil
}

// decodeZipForModel reads the archive the way rio's loop does (bodies of regular files and symlinks only) and
// renders the entry list the model takes.
func decodeZipForModel(b []byte) (string, string) {
	zr, err := zip.NewReader(bytes.NewReader(b), int64(len(b)))
	if err != nil {
		return "-", "0"
	}
	var toks []string
	for _, zf := range zr.File {
		fi := zf.FileInfo()
		openOk, bodyOk := "1", "1"
		ch, body := "", ""
		if fi.Mode()&os.ModeType == 0 || fi.Mode()&os.ModeSymlink != 0 {
			r, err := zf.Open()
			if err != nil {
				openOk, bodyOk = "0", "0"
			} else {
				data, err := io.ReadAll(r)
				if err != nil {
					bodyOk = "0"
				}
				r.Close()
				ch = string(sha384(data))
				if fi.Mode()&os.ModeSymlink != 0 && fi.Mode()&os.ModeDir == 0 {
					body = string(data)
				}
			}
		}
		toks = append(toks, fmt.Sprintf("%s,%d,%s,%d,%d,%d,%s,%s,%s,%s", hx(zf.Name), uint32(fi.Mode()), hx(string(zf.Extra)), zf.Modified.Unix(), zf.Modified.Nanosecond(),
			fi.Size(), hx(ch), hx(body), openOk, bodyOk))
	}
	if len(toks) == 0 {
		return "-", "1"
	}
	return strings.Join(toks, ";"), "1"
}

func runUnpackZipNil(filt api.FilesetUnpackFilter, stream []byte) (r unpackRes) {
	defer func() {
		if x := recover(); x != nil {
			r.panicked = fmt.Sprint(x)
		}
	}()
	pre, post, err := ziptrans.UnpackZipForVerif(context.Background(), nilFS.New(), filt, api.WareID{Type: "zip", Hash: "-"}, bytes.NewReader(stream), rio.Monitor{})
	r.pre, r.post = pre.Hash, post.Hash
	if err != nil {
		r.cat = catOf(err)
	}
	return
}

// unpackZipExec: recipe = "unpackzip <filter-string> <mut> <rawhdr;rawhdr;...>"
func unpackZipExec(c *Ctx, op string) string {
	c.Begin(op)
	f := strings.Fields(op)
	filt := api.MustParseFilesetUnpackFilter(f[1])
	var hdrs []RawHdr
	if f[3] != "-" {
		for _, t := range strings.Split(f[3], ";") {
			hdrs = append(hdrs, parseRawHdr(t))
		}
	}
	stream, err := encodeZip(hdrs)
	if err != nil {
		return "skip\x00skip"
	}
	m := strings.Split(f[2], ":")
	arg := func(i int) int {
		n := 0
		if len(m) > i {
			fmt.Sscan(m[i], &n)
		}
		return n
	}
	switch m[0] {
	case "trunc":
		stream = stream[:arg(1)%(len(stream)+1)]
	case "flip":
		if len(stream) > 0 {
			stream[arg(1)%len(stream)] ^= 1 << uint(arg(2)%8)
		}
	}
	toks, readable := decodeZipForModel(stream)
	r := runUnpackZipNil(filt, stream)
	var res string
	switch {
	case r.panicked != "":
		res = "panic"
		c.PropFail("panic-zip", "zip unpack panicked: "+r.panicked, op)
		c.H("zout:panic")
	case r.cat != "":
		res = "err " + r.cat
		if !strings.HasPrefix(r.cat, "rio-") {
			c.PropFail("uncategorized", "zip unpack returned a non-rio error category "+r.cat, op)
		}
		c.H("zout:" + r.cat)
	default:
		res = "ok " + b58orDash(r.pre) + " " + b58orDash(r.post)
		c.H("zout:ok")
		c.Distinct(r.pre)
	}
	model := fmt.Sprintf("unpack zip %s %d %d %s %s", filterInts(filt), os.Getuid(), os.Getgid(), readable, toks)
	return model + "\x00" + res
}

// unpackZipDiskExec: recipe "unpackzip-disk <filter> <fileset>" — a zip ware unpacked onto the real filesystem with a
// filter: every entry on disk (symlinks and directories included: lstat) is the documented filtered entry
func unpackZipDiskExec(c *Ctx, op string) {
	c.Begin(op)
	f := strings.Fields(op)
	fstr := f[1]
	fsx := parseFilesetTok(f[2])
	caseCounter++
	base := filepath.Join(c.Work, fmt.Sprintf("zd%d", caseCounter))
	defer rmrf(base)
	src, wh, dst := filepath.Join(base, "src"), filepath.Join(base, "wh"), filepath.Join(base, "dst")
	os.MkdirAll(wh, 0755)
	os.Setenv("RIO_CACHE", filepath.Join(base, "cache"))
	os.Setenv("RIO_BASE", filepath.Join(base, "riobase"))
	if Materialize(fsx, src, nil) != nil {
		c.EmitR(op, "skip", "skip")
		return
	}
	ctx := context.Background()
	id, err := ziptrans.Pack(ctx, "zip", src, api.MustParseFilesetPackFilter(losslessPackStr), whAddr("file", wh), rio.Monitor{})
	if err != nil {
		c.EmitR(op, "skip", "skip")
		return
	}
	uf := api.MustParseFilesetUnpackFilter(fstr)
	for _, mode := range []rio.PlacementMode{rio.Placement_Direct, rio.Placement_Copy} {
		os.RemoveAll(dst)
		_, e, pan := safeCall(func() (api.WareID, error) {
			return ziptrans.Unpack(ctx, id, dst, uf, mode, []api.WarehouseLocation{whAddr("file", wh)}, rio.Monitor{})
		})
		if pan != "" {
			c.PropFail("panic-zip", "zip unpack with a filter panicked: "+pan, op)
			continue
		}
		var want Fileset
		rejected := false
		for _, en := range truncateForFormat(fsx) {
			w, rej, drop := specFilter("unpack", fstr, en, uint32(os.Getuid()), uint32(os.Getgid()))
			rejected = rejected || rej
			if !drop {
				want = append(want, w)
			}
		}
		if e != nil {
			if !rejected {
				c.PropFail("filter-reject", fmt.Sprintf("zip unpack (%s) with %s failed although no entry offends: %v", mode, fstr, e), op)
			}
			continue
		}
		got, se := Snapshot(dst)
		if se != nil || got.Digest(true) != want.Digest(true) {
			c.PropFail("filter-attr", fmt.Sprintf("zip unpack (%s) with %s did not materialise the documented filtered fileset: %s", mode, fstr, DiffFilesets(want, got, true)), op)
		}
	}
	c.H("zipdisk")
	c.EmitR(op, "skip", "skip")
	c.Distinct(op)
}

func unpackZipEngine(c *Ctx) {
	if ls := replayLines(); ls != nil {
		for _, op := range ls {
			if strings.HasPrefix(op, "unpackzip ") {
				c.Emit2(op, unpackZipExec)
			} else if strings.HasPrefix(op, "unpackzip-disk ") {
				unpackZipDiskExec(c, op)
			}
		}
		return
	}
	nSets, maxEnt := 60, 9
	if c.Tier == "thorough" {
		nSets, maxEnt = 1200, 30
	}
	lossless := "uid=follow,gid=follow,mtime=follow,sticky=follow,setid=follow,dev=follow"
	devIgnore := "uid=follow,gid=follow,mtime=follow,sticky=follow,setid=follow,dev=ignore"
	run := func(op string) string {
		r := unpackZipExec(c, op)
		parts := strings.SplitN(r, "\x00", 2)
		c.EmitR(op, parts[0], parts[1])
		return parts[1]
	}
	// on the real filesystem: files, directories and symlinks with foreign owners, under altering filters
	{
		t := int64(1300000000)
		fsd := Fileset{{Name: "", Kind: 'd', Perms: 0755, Uid: 1111, Gid: 2222, Sec: t}, {Name: "f", Kind: 'f', Perms: 0644, Uid: 1111, Gid: 2222, Sec: t, Content: []byte("f")},
			{Name: "ln", Kind: 'L', Perms: 0777, Uid: 1111, Gid: 2222, Sec: t + 5, Link: "f"}, {Name: "d", Kind: 'd', Perms: 02750, Uid: 1111, Gid: 2222, Sec: t + 9},
			{Name: "d/ln2", Kind: 'L', Perms: 0777, Uid: 3, Gid: 4, Sec: t + 7, Link: "../f"}, {Name: "d/sg", Kind: 'f', Perms: 02755, Uid: 1111, Gid: 2222, Sec: t, Content: []byte("s")}}
		for _, fstr := range []string{"uid=4242,gid=4343,mtime=@1400000000,sticky=follow,setid=follow,dev=follow", "uid=mine,gid=mine,mtime=follow,sticky=follow,setid=ignore,dev=follow",
			"uid=follow,gid=follow,mtime=@86400,sticky=follow,setid=follow,dev=follow", "uid=follow,gid=follow,mtime=follow,sticky=follow,setid=follow,dev=follow"} {
			unpackZipDiskExec(c, fmt.Sprintf("unpackzip-disk %s %s", fstr, filesetTok(fsd)))
		}
	}
	// permanent corpus: the traps of the tar stream, in zip clothing, plus zip's own
	file := func(n string) RawHdr {
		return RawHdr{Name: n, Typeflag: '0', Mode: 0644, Sec: 1e9, Content: []byte("c")}
	}
	dir := func(n string) RawHdr { return RawHdr{Name: n, Typeflag: '5', Mode: 0755, Sec: 1e9} }
	typed := func(n string, tf byte) RawHdr { return RawHdr{Name: n, Typeflag: tf, Mode: 0666, Sec: 1e9} }
	corpus := [][]RawHdr{
		{}, {file("/abs")}, {file("a"), file("a")}, {file("a/b"), {Name: "a/", Typeflag: '5', Mode: 0700, Uid: 7, Gid: 8, Sec: 99}},
		{file("a/b"), {Name: "./", Typeflag: '5', Mode: 0700, Uid: 7, Gid: 8, Sec: 99}}, {file("../x")}, {file("..x")}, {typed("h", '1')}, {typed("odd", 'Z')},
		{dir("a/.."), file("f")}, {typed(".", '3')}, {typed(".", '4'), file("a")}, {typed("", '3')}, {typed("./", '3')}, {typed("dev", '3')}, {typed("dev", 'C')},
		{dir("./"), typed("p", '6')}, {dir("./"), typed("s", 'S')}, {dir("./"), {Name: "l", Typeflag: '2', Mode: 0777, Link: "target", Sec: 5}},
		{dir("./"), {Name: "l/", Typeflag: '2', Mode: 0777, Link: "target", Sec: 5}}, {dir("./"), {Name: "noowner", Typeflag: '0', Mode: 0644, Uid: -1}},
		{dir("./"), file("d/x"), dir("d/")}, {dir("./"), file("d/x"), file("d")}, {file("d"), file("d/x")}, {dir("./"), {Name: "su", Typeflag: '0', Mode: 04755, Sec: 9}},
	}
	for _, hs := range corpus {
		for _, fstr := range []string{lossless, devIgnore, "uid=7,gid=mine,mtime=now,sticky=follow,setid=follow,dev=follow", "uid=follow,gid=follow,mtime=follow,sticky=ignore,setid=reject,dev=reject"} {
			run(fmt.Sprintf("unpackzip %s none %s", fstr, hdrsTok(hs)))
		}
	}
	// the "goes up" gate
	for _, nm := range []string{"..foo", "...", "..a/b", "./..x", "a/..b", "./../evil", "a/../../evil", "../x", "..", "a/..", ".../x"} {
		run(fmt.Sprintf("unpackzip %s none %s", lossless, hdrsTok([]RawHdr{dir("./"), file(nm)})))
	}
	opts := GenOpts{MaxEntries: maxEnt, Kinds: "fffdLLpDc", SubSecond: false, BigIds: true, Setid: true, Xattrs: false, MaxContent: 600}
	for k := 0; k < nSets; k++ {
		o2 := opts
		if k%3 != 0 {
			o2.Kinds = "fffdLL"
		}
		fsx := c.GenFileset(o2)
		if k%4 != 3 { // archive/zip's writer stores the time as a uint32 of seconds (and a DOS date): stay in 1980..2100 mostly
			for i := range fsx {
				if fsx[i].Sec < 315532800 || fsx[i].Sec >= 4102444800 {
					fsx[i].Sec = 315532800 + (fsx[i].Sec%1000000000+1000000000)%1000000000
				}
			}
		}
		timesOk := k%4 != 3
		onlyZipKinds := true
		for _, e := range fsx {
			if e.Kind != 'f' && e.Kind != 'd' && e.Kind != 'L' {
				onlyZipKinds = false
			}
		}
		// (1) encodings of the same fileset: orders x implicit parents x ./ prefixes
		for vi, o := range []hdrOpts{{}, {dotSlash: true}, {dirsAfterKids: true}, {dropDirs: 0.5}, {dropDirs: 1, dotSlash: true}} {
			hdrs, eff := c.filesetToHdrs(fsx, o)
			op := fmt.Sprintf("unpackzip %s none %s", lossless, hdrsTok(hdrs))
			res := run(op)
			c.H(fmt.Sprintf("zvariant:%d", vi))
			if len(hdrs) == 0 || !onlyZipKinds || !timesOk {
				continue
			}
			// C05 oracle: scan(A) == reference(fileset A encodes); zip keeps whole seconds, no devices, no xattrs
			effZ := eff.clone()
			for i := range effZ {
				effZ[i].Nsec = 0
				effZ[i].Maj, effZ[i].Min = 0, 0
			}
			want := misc.Base58Encode(RefTreeHash(effZ, sha384))
			if strings.HasPrefix(res, "ok ") {
				if got := strings.Fields(res)[1]; got != want {
					c.PropFail("format", fmt.Sprintf("scan of a zip archive gives %s, reference tree hash of the encoded fileset is %s", got, want), op)
				}
			} else {
				c.PropFail("valid-archive-refused", "a well-formed zip archive of a fileset was not accepted: "+res, op)
			}
		}
		// (2) filters
		for fi := 0; fi < 3; fi++ {
			fstr := unpackFilterStrings[c.Intn(len(unpackFilterStrings))]
			hdrs, eff := c.filesetToHdrs(fsx, hdrOpts{dirsAfterKids: fi > 0, dotSlash: fi == 2})
			op := fmt.Sprintf("unpackzip %s none %s", fstr, hdrsTok(hdrs))
			res := run(op)
			if !onlyZipKinds || !timesOk {
				continue
			}
			var filtered, effZ Fileset
			rejected := false
			for _, e := range eff {
				e.Nsec, e.Maj, e.Min = 0, 0, 0
				effZ = append(effZ, e)
				w, rej, drop := specFilter("unpack", fstr, e, uint32(os.Getuid()), uint32(os.Getgid()))
				if rej {
					rejected = true
				}
				if !drop {
					filtered = append(filtered, w)
				}
			}
			switch {
			case strings.HasPrefix(res, "ok "):
				if rejected {
					c.PropFail("filter-reject", "zip unpack succeeded although a reject rule names an entry", op)
				} else {
					fl := strings.Fields(res)
					if fl[1] != misc.Base58Encode(RefTreeHash(effZ, sha384)) {
						c.PropFail("filter-prehash", "zip: prefilter wareID is not the hash of the unfiltered fileset", op)
					}
					if fl[2] != misc.Base58Encode(RefTreeHash(filtered, sha384)) {
						c.PropFail("filter-attr", "zip: filtered wareID is not the hash of the documented filtered fileset", op)
					}
				}
			case res == "err rio-filter-rejection":
				if !rejected {
					c.PropFail("filter-reject", "zip: filter-rejection although no entry offends", op)
				}
			}
		}
		// (3) damage: truncations and bit flips of the archive bytes
		hdrs, _ := c.filesetToHdrs(fsx, hdrOpts{})
		for i := 0; i < 4; i++ {
			run(fmt.Sprintf("unpackzip %s trunc:%d %s", lossless, c.Intn(1<<16), hdrsTok(hdrs)))
			run(fmt.Sprintf("unpackzip %s flip:%d:%d %s", lossless, c.Intn(1<<16), c.Intn(8), hdrsTok(hdrs)))
		}
	}
}
