package main

import (
	"context"
	"fmt"
	"os"
	"path/filepath"
	"strings"
	"sync"

	api "github.com/polydawn/go-timeless-api"
	"github.com/polydawn/go-timeless-api/rio"
)

func init() { engines["scanconc"] = scanConcEngine }

// scanconc: scans (and placement-none unpacks) of distinct archives with long file bodies run at the same time in one
// process, as a stitch of several inputs does: every id equals the id the same archive scans to alone, which equals the id
// its pack answered. Recipe: "scanconc <tar|zip> <goroutines> <rounds>".
func scanConcExec(c *Ctx, op string) {
	c.Begin(op)
	f := strings.Fields(op)
	fmtName := f[1]
	g, rounds := 8, 3
	fmt.Sscan(f[2], &g)
	fmt.Sscan(f[3], &rounds)
	caseCounter++
	base := filepath.Join(c.Work, fmt.Sprintf("scc%d", caseCounter))
	defer rmrf(base)
	os.Setenv("RIO_CACHE", filepath.Join(base, "cache"))
	ctx := context.Background()
	fn := funcsFor(fmtName)
	pf := api.MustParseFilesetPackFilter(losslessPackStr)
	uf := api.MustParseFilesetUnpackFilter(losslessUnpackStr)
	type ware struct {
		id   api.WareID
		addr api.WarehouseLocation
	}
	var wares []ware
	x := uint32(12345)
	for w := 0; w < 2; w++ {
		src, wh := filepath.Join(base, fmt.Sprintf("src%d", w)), filepath.Join(base, fmt.Sprintf("wh%d", w))
		os.MkdirAll(filepath.Join(src, "d"), 0755)
		os.MkdirAll(wh, 0755)
		for i, n := range []int{1 << 20, 300000, 70000, 1 << 21} {
			b := make([]byte, n)
			for j := range b {
				x = x*1664525 + 1013904223
				b[j] = byte(x >> 24)
			}
			os.WriteFile(filepath.Join(src, []string{"a", "d/b", "d/c", "z"}[i]), b, 0644)
		}
		id, err := fn.pack(ctx, api.PackType(fmtName), src, pf, whAddr("ca", wh), rio.Monitor{})
		if err != nil {
			c.EmitR(op, "skip", "skip")
			return
		}
		wares = append(wares, ware{id, api.WarehouseLocation("file://" + storedWarePath("ca", wh, id))})
	}
	c.EmitR(op, "skip", "skip")
	scan := func(w ware) string {
		id, err, pan := safeCall(func() (api.WareID, error) {
			return fn.scan(ctx, api.PackType(fmtName), uf, rio.Placement_Direct, w.addr, rio.Monitor{})
		})
		return resTok(id, err, pan)
	}
	for _, w := range wares {
		if r := scan(w); r != "ok "+w.id.Hash {
			c.PropFail("format", fmt.Sprintf("pack answered %s, a scan of the ware it wrote answers %s", w.id, r), op)
			return
		}
	}
	bad := make([]string, g)
	var wg sync.WaitGroup
	for k := 0; k < g; k++ {
		wg.Add(1)
		go func(k int) {
			defer wg.Done()
			for r := 0; r < rounds; r++ {
				w := wares[(k+r)%len(wares)]
				if res := scan(w); res != "ok "+w.id.Hash && bad[k] == "" {
					bad[k] = fmt.Sprintf("%s instead of %s", res, w.id.Hash)
				}
			}
		}(k)
	}
	wg.Wait()
	nbad := 0
	first := ""
	for _, b := range bad {
		if b != "" {
			nbad++
			if first == "" {
				first = b
			}
		}
	}
	c.H(fmt.Sprintf("scanconc:%s:bad=%v", fmtName, nbad > 0))
	if nbad > 0 {
		c.PropFail("scan-concurrent", fmt.Sprintf("%d of %d goroutines scanning two %s archives at the same time got an id other than the one the archive scans to alone (e.g. %s)", nbad, g, fmtName, first), op)
	}
	// unpacks at the same time (a stitch of several inputs): every tree holds, byte for byte, the files that were packed
	{
		type want struct {
			name string
			data []byte
		}
		var wants [][]want
		for w := range wares {
			var ws []want
			for _, n := range []string{"a", "d/b", "d/c", "z"} {
				b, _ := os.ReadFile(filepath.Join(base, fmt.Sprintf("src%d", w), n))
				ws = append(ws, want{n, b})
			}
			wants = append(wants, ws)
		}
		ubad := make([]string, g)
		var uwg sync.WaitGroup
		for k := 0; k < g; k++ {
			uwg.Add(1)
			go func(k int) {
				defer uwg.Done()
				wi := k % len(wares)
				dst := filepath.Join(base, fmt.Sprintf("udst%d", k))
				id, err, pan := safeCall(func() (api.WareID, error) {
					return fn.unpack(ctx, wares[wi].id, dst, uf, rio.Placement_Direct, []api.WarehouseLocation{wares[wi].addr}, rio.Monitor{})
				})
				if r := resTok(id, err, pan); r != "ok "+wares[wi].id.Hash {
					ubad[k] = "the unpack answers " + r
					return
				}
				for _, x := range wants[wi] {
					if b, e := os.ReadFile(filepath.Join(dst, x.name)); e != nil || string(b) != string(x.data) {
						ubad[k] = fmt.Sprintf("file %s (%d bytes) differs from what was packed", x.name, len(x.data))
						return
					}
				}
				rmrf(dst)
			}(k)
		}
		uwg.Wait()
		nb, firstU := 0, ""
		for _, b := range ubad {
			if b != "" {
				nb++
				if firstU == "" {
					firstU = b
				}
			}
		}
		c.H(fmt.Sprintf("scanconc:%s:unpack-bad=%v", fmtName, nb > 0))
		if nb > 0 {
			c.PropFail("roundtrip-tree", fmt.Sprintf("%d of %d unpacks of two intact %s wares (files of 70 kB to 2 MiB) running at the same time in one process failed or delivered other bytes (e.g. %s)", nb, g, fmtName, firstU), op)
		}
	}
	// … and after operations that broke off in the middle of a file body (a truncated download, a full disk): what a later
	// scan of an intact archive answers does not depend on what happened before it in the same process
	{
		raw, err := os.ReadFile(strings.TrimPrefix(string(wares[0].addr), "file://"))
		if err == nil && len(raw) > 1000 {
			failed := 0
			for i, cut := range []int{len(raw) / 4, len(raw) / 2, len(raw) * 3 / 4, len(raw) / 3, len(raw) * 2 / 3, len(raw) - 600, 700} {
				tp := filepath.Join(base, fmt.Sprintf("cut%d", i))
				os.WriteFile(tp, raw[:cut], 0644)
				r := scan(ware{wares[0].id, api.WarehouseLocation("file://" + tp)})
				if !strings.HasPrefix(r, "ok") {
					failed++
				}
				// an unpack that fails while placing (the destination's parent is a file)
				os.WriteFile(filepath.Join(base, "notadir"), []byte("x"), 0644)
				safeCall(func() (api.WareID, error) {
					return fn.unpack(ctx, wares[0].id, filepath.Join(base, "notadir", "dst"), uf, rio.Placement_Direct, []api.WarehouseLocation{wares[0].addr}, rio.Monitor{})
				})
			}
			c.H(fmt.Sprintf("scanconc:%s:after-failed=%d", fmtName, failed))
			for _, w := range wares {
				if r := scan(w); r != "ok "+w.id.Hash {
					c.PropFail("scan-concurrent", fmt.Sprintf("after %d scans of truncated copies had failed in this process, the intact %s archive scans to %s instead of %s", failed, fmtName, r, w.id.Hash), op)
				}
			}
		}
	}
	c.Distinct(op)
}

func scanConcEngine(c *Ctx) {
	if ls := replayLines(); ls != nil {
		for _, op := range ls {
			if strings.HasPrefix(op, "scanconc ") {
				scanConcExec(c, op)
			}
		}
		return
	}
	rounds := 3
	if c.Tier == "thorough" {
		rounds = 12
	}
	for _, fm := range []string{"tar", "zip"} {
		scanConcExec(c, fmt.Sprintf("scanconc %s 8 %d", fm, rounds))
	}
}
