package main

import (
	"context"
	"fmt"
	"os"
	"path/filepath"
	"strings"
	"sync"

	api "github.com/polydawn/go-timeless-api"
	"github.com/polydawn/go-timeless-api/rio"
)

func init() { engines["scanconc"] = scanConcEngine }

// scanconc: scans (and placement-none unpacks) of distinct archives with long file bodies run at the same time in one
// process, as a stitch of several inputs does: every id equals the id the same archive scans to alone, which equals the id
// its pack answered. Recipe: "scanconc <tar|zip> <goroutines> <rounds>".
func scanConcExec(c *Ctx, op string) {
	c.Begin(op)
	f := strings.Fields(op)
	fmtName := f[1]
	g, rounds := 8, 3
	fmt.Sscan(f[2], &g)
	fmt.Sscan(f[3], &rounds)
	caseCounter++
	base := filepath.Join(c.Work, fmt.Sprintf("scc%d", caseCounter))
	defer rmrf(base)
	os.Setenv("RIO_CACHE", filepath.Join(base, "cache"))
	ctx := context.Background()
	fn := funcsFor(fmtName)
	pf := api.MustParseFilesetPackFilter(losslessPackStr)
	uf := api.MustParseFilesetUnpackFilter(losslessUnpackStr)
	type ware struct {
		id   api.WareID
		addr api.WarehouseLocation
	}
	var wares []ware
	x := uint32(12345)
	for w := 0; w < 2; w++ {
		src, wh := filepath.Join(base, fmt.Sprintf("src%d", w)), filepath.Join(base, fmt.Sprintf("wh%d", w))
		os.MkdirAll(filepath.Join(src, "d"), 0755)
		os.MkdirAll(wh, 0755)
		for i, n := range []int{1 << 20, 300000, 70000, 1 << 21} {
			b := make([]byte, n)
			for j := range b {
				x = x*1664525 + 1013904223
				b[j] = byte(x >> 24)
			}
			os.WriteFile(filepath.Join(src, []string{"a", "d/b", "d/c", "z"}[i]), b, 0644)
		}
		id, err := fn.pack(ctx, api.PackType(fmtName), src, pf, whAddr("ca", wh), rio.Monitor{})
		if err != nil {
			c.EmitR(op, "skip", "skip")
			return
		}
		wares = append(wares, ware{id, api.WarehouseLocation("file://" + storedWarePath("ca", wh, id))})
	}
	c.EmitR(op, "skip", "skip")
	scan := func(w ware) string {
		id, err, pan := safeCall(func() (api.WareID, error) {
			return fn.scan(ctx, api.PackType(fmtName), uf, rio.Placement_Direct, w.addr, rio.Monitor{})
		})
		return resTok(id, err, pan)
	}
	for _, w := range wares {
		if r := scan(w); r != "ok "+w.id.Hash {
			c.PropFail("format", fmt.Sprintf("pack answered %s, a scan of the ware it wrote answers %s", w.id, r), op)
			return
		}
	}
	bad := make([]string, g)
	var wg sync.WaitGroup
	for k := 0; k < g; k++ {
		wg.Add(1)
		go func(k int) {
			defer wg.Done()
			for r := 0; r < rounds; r++ {
				w := wares[(k+r)%len(wares)]
				if res := scan(w); res != "ok "+w.id.Hash && bad[k] == "" {
					bad[k] = fmt.Sprintf("%s instead of %s", res, w.id.Hash)
				}
			}
		}(k)
	}
	wg.Wait()
	nbad := 0
	first := ""
	for _, b := range bad {
		if b != "" {
			nbad++
			if first == "" {
				first = b
			}
		}
	}
	c.H(fmt.Sprintf("scanconc:%s:bad=%v", fmtName, nbad > 0))
	if nbad > 0 {
		c.PropFail("scan-concurrent", fmt.Sprintf("%d of %d goroutines scanning two %s archives at the same time got an id other than the one the archive scans to alone (e.g. %s)", nbad, g, fmtName, first), op)
	}
	c.Distinct(op)
}

func scanConcEngine(c *Ctx) {
	if ls := replayLines(); ls != nil {
		for _, op := range ls {
			if strings.HasPrefix(op, "scanconc ") {
				scanConcExec(c, op)
			}
		}
		return
	}
	rounds := 3
	if c.Tier == "thorough" {
		rounds = 12
	}
	for _, fm := range []string{"tar", "zip"} {
		scanConcExec(c, fmt.Sprintf("scanconc %s 8 %d", fm, rounds))
	}
}
