package main

import (
	"archive/tar"
	"bytes"
	"context"
	"fmt"
	"net/http"
	"net/http/httptest"
	"os"
	"os/exec"
	"path/filepath"
	"strings"
	"time"

	api "github.com/polydawn/go-timeless-api"
	"github.com/polydawn/go-timeless-api/rio"
	tartrans "github.com/polydawn/rio/transmat/tar"
)

func init() { engines["xproc"] = xprocEngine }

// xproc (C03 / C09): separate OS processes sharing one fileset cache.  Process A (the rio binary) is served an
// *altered* copy of ware W — W's entries plus an extra file — over HTTP; the server stalls after the extra entry, and A
// is killed there (a crash mid-unpack: no refusal, no cleanup).  Process B then unpacks W from a good warehouse through
// the same cache.  Nothing A fetched may appear in what B delivers or in any cache shelf.
func xprocExec(c *Ctx, op string) {
	c.Begin(op)
	f := strings.Fields(op)
	mode := f[1]
	fsx := parseFilesetTok(f[2])
	bin := os.Getenv("RIO_BIN")
	if bin == "" {
		c.EmitR(op, "skip", "skip")
		return
	}
	caseCounter++
	base := filepath.Join(c.Work, fmt.Sprintf("xp%d", caseCounter))
	defer rmrf(base)
	src, whDir, cache := filepath.Join(base, "src"), filepath.Join(base, "wh"), filepath.Join(base, "cache")
	os.MkdirAll(whDir, 0755)
	if Materialize(fsx, src, nil) != nil {
		c.EmitR(op, "skip", "skip")
		return
	}
	ctx := context.Background()
	pf := api.MustParseFilesetPackFilter(losslessPackStr)
	goodWare := filepath.Join(whDir, "good.tar")
	id, err := tartrans.Pack(ctx, "tar", src, pf, api.WarehouseLocation("file://"+goodWare), rio.Monitor{})
	if err != nil {
		c.EmitR(op, "skip", "skip")
		return
	}
	// the altered stream: root dir, the extra entry, then it stalls
	var head bytes.Buffer
	tw := tar.NewWriter(&head)
	tw.WriteHeader(&tar.Header{Name: "./", Typeflag: tar.TypeDir, Mode: 0755, ModTime: time.Unix(1e9, 0)})
	evil := []byte("bytes that do not belong to the ware")
	tw.WriteHeader(&tar.Header{Name: "./zz-evil", Typeflag: tar.TypeReg, Mode: 0644, Size: int64(len(evil)), ModTime: time.Unix(1e9, 0)})
	tw.Write(evil)
	tw.WriteHeader(&tar.Header{Name: "./zz-more", Typeflag: tar.TypeReg, Mode: 0644, Size: 4096, ModTime: time.Unix(1e9, 0)})
	tw.Flush()
	release := make(chan struct{})
	srv := httptest.NewServer(http.HandlerFunc(func(w http.ResponseWriter, r *http.Request) {
		w.Header().Set("Content-Length", "1000000")
		w.Write(head.Bytes())
		if fl, ok := w.(http.Flusher); ok {
			fl.Flush()
		}
		<-release
	}))
	defer srv.Close()
	defer close(release)
	env := append(os.Environ(), "RIO_CACHE="+cache, "RIO_BASE="+filepath.Join(base, "riobase"))
	filt := "uid=follow,gid=follow,mtime=follow,sticky=follow,setid=follow,dev=follow"
	a := exec.Command(bin, "unpack", id.String(), filepath.Join(base, "dstA"), "--placer="+mode, "--source="+srv.URL+"/ware", "--filters", filt)
	a.Env = env
	if a.Start() != nil {
		c.EmitR(op, "skip", "skip")
		return
	}
	// wait until A has placed the extra entry somewhere under the cache (or in its destination), then kill it
	placed := false
	for i := 0; i < 100 && !placed; i++ {
		time.Sleep(20 * time.Millisecond)
		filepath.Walk(base, func(p string, info os.FileInfo, e error) error {
			if e == nil && info.Name() == "zz-evil" {
				placed = true
			}
			return nil
		})
	}
	a.Process.Kill()
	a.Wait()
	c.H(fmt.Sprintf("xproc:placed=%v", placed))
	// process B: the good warehouse, same cache
	dstB := filepath.Join(base, "dstB")
	b := exec.Command(bin, "unpack", id.String(), dstB, "--placer="+mode, "--source=file://"+goodWare, "--filters", filt)
	b.Env = env
	out, berr := b.CombinedOutput()
	if berr != nil {
		c.PropFail("concurrent-unpack-failed", "a good unpack after another process crashed mid-unpack failed: "+strings.TrimSpace(string(out)), op)
	}
	bad := ""
	filepath.Walk(base, func(p string, info os.FileInfo, e error) error {
		if e != nil || info.Name() != "zz-evil" {
			return nil
		}
		rel, _ := filepath.Rel(base, p)
		if strings.HasPrefix(rel, "dstB") || strings.Contains(rel, "/fileset/") {
			bad = rel
		}
		return nil
	})
	if bad != "" {
		c.PropFail("cache-polluted-by-other-process", "bytes fetched by another (killed) process for the same wareID were delivered / shelved: "+bad, op)
	}
	if berr == nil && mode != "none" {
		if got, e := Snapshot(dstB); e == nil && got.Digest(true) != truncateForFormat(fsx).Digest(true) {
			c.PropFail("cache-polluted-by-other-process", "the good unpack does not show the ware's fileset: "+DiffFilesets(truncateForFormat(fsx), got, true), op)
		}
	}
	c.EmitR(op, "skip", "skip")
	c.Distinct(op)
}

func xprocEngine(c *Ctx) {
	if ls := replayLines(); ls != nil {
		for _, op := range ls {
			if strings.HasPrefix(op, "xproc ") {
				xprocExec(c, op)
			}
		}
		return
	}
	n := 2
	if c.Tier == "thorough" {
		n = 12
	}
	for k := 0; k < n; k++ {
		fsx := c.GenFileset(GenOpts{MaxEntries: 4, Kinds: "ffd", MaxContent: 300})
		sanitizeForRoundtrip(fsx, "tar")
		xprocExec(c, fmt.Sprintf("xproc %s %s", []string{"copy", "none", "mount"}[k%3], filesetTok(fsx)))
	}
}
