package main

import (
	"bytes"
	"context"
	"fmt"
	"net"
	"net/http"
	"net/http/httptest"
	"os"
	"path/filepath"
	"strings"
	"syscall"
	"time"

	api "github.com/polydawn/go-timeless-api"
	"github.com/polydawn/go-timeless-api/rio"
)

func init() { engines["mirror"] = mirrorEngine }

// mirrorExec: recipe "mirror <fmt> <tgt: ca|file> <sources: cond,cond,...> <fileset>"
// source conds: missingdir | lacking | good | corrupt | mislabelled ; each source is ca+file or file by position parity.
func mirrorExec(c *Ctx, op string) {
	f := strings.Fields(op)
	fmtName, tgtKind := f[1], f[2]
	conds := strings.Split(f[3], ",")
	fsx := parseFilesetTok(f[4])
	fn := funcsFor(fmtName)
	caseCounter++
	base := filepath.Join(c.Work, fmt.Sprintf("mi%d", caseCounter))
	defer rmrf(base)
	src, tgt, master := filepath.Join(base, "src"), filepath.Join(base, "tgt"), filepath.Join(base, "master")
	os.MkdirAll(tgt, 0755)
	os.MkdirAll(master, 0755)
	os.Setenv("RIO_CACHE", filepath.Join(base, "cache"))
	// a private $TMPDIR: whatever scan / mirror / unpack spool locally must be gone when they return (C20)
	tmpDir := filepath.Join(base, "tmp")
	os.MkdirAll(tmpDir, 0755)
	oldTmp := os.Getenv("TMPDIR")
	os.Setenv("TMPDIR", tmpDir)
	defer os.Setenv("TMPDIR", oldTmp)
	tgtFull := strings.HasSuffix(tgtKind, "!") // the target sits on a tiny tmpfs: the copy runs out of space
	tgtKind = strings.TrimSuffix(tgtKind, "!")
	if tgtFull {
		if e := syscall.Mount("tmpfs", tgt, "tmpfs", 0, "size=16k"); e != nil {
			tgtFull = false
		} else {
			defer syscall.Unmount(tgt, syscall.MNT_DETACH)
		}
	}
	tgtBlocked := strings.HasSuffix(tgtKind, "#") // the target's final address cannot be created: the commit step (mkdir / rename) fails
	tgtKind = strings.TrimSuffix(tgtKind, "#")
	tgtShard := strings.HasSuffix(tgtKind, "%") // the ware's first-level shard directory exists already (another ware lives there), the second does not
	tgtKind = strings.TrimSuffix(tgtKind, "%")
	tgtDangling := strings.HasSuffix(tgtKind, "@") // the ware's slot in the target is a dangling symlink (a blob that lived on a pruned volume)
	tgtKind = strings.TrimSuffix(tgtKind, "@")
	tgtOther := strings.HasSuffix(tgtKind, "+") // the target warehouse received a mirror of another ware earlier
	tgtKind = strings.TrimSuffix(tgtKind, "+")
	tgtAbsent := strings.HasSuffix(tgtKind, "^") // the target warehouse directory does not exist (its parent does)
	tgtKind = strings.TrimSuffix(tgtKind, "^")
	warmCache := strings.HasSuffix(tgtKind, "=") // this host's fileset cache already holds W (it was unpacked here before)
	tgtKind = strings.TrimSuffix(tgtKind, "=")
	if tgtAbsent {
		os.Remove(tgt)
	}
	if tgtKind != "ca" {
		tgtBlocked = false // at a single-file address nothing can stand in the way but an object *at* the address
	}
	ctx := context.Background()
	pf := api.MustParseFilesetPackFilter(losslessPackStr)
	uf := api.MustParseFilesetUnpackFilter(losslessUnpackStr)
	if err := Materialize(fsx, src, nil); err != nil {
		c.EmitR(op, "skip", "skip")
		return
	}
	id, err := fn.pack(ctx, api.PackType(fmtName), src, pf, whAddr("ca", master), rio.Monitor{})
	if err != nil {
		c.EmitR(op, "skip", "skip")
		return
	}
	good, _ := os.ReadFile(storedWarePath("ca", master, id))
	// another valid ware (for "mislabelled")
	os.WriteFile(filepath.Join(src, "zz-extra"), []byte("x"), 0644)
	oid, _ := fn.pack(ctx, api.PackType(fmtName), src, pf, whAddr("ca", master), rio.Monitor{})
	other, _ := os.ReadFile(storedWarePath("ca", master, oid))
	var sources []api.WarehouseLocation
	var srcFiles []string
	var pickToks []string
	var httpSrv *httptest.Server
	var missingDirs []string // source locations that do not exist: they must still not exist afterwards
	firstHolder := ""
	for i, cd := range conds {
		kind := []string{"ca", "file"}[i%2]
		dir := filepath.Join(base, fmt.Sprintf("s%d", i))
		scheme := map[string]string{"ca": "ca+file", "file": "file"}[kind]
		switch cd {
		case "httpgood":
			// a good copy behind HTTP (Content-Length known: the body's last chunk arrives together with io.EOF)
			if httpSrv == nil {
				httpSrv = httptest.NewServer(http.HandlerFunc(func(w http.ResponseWriter, r *http.Request) {
					if strings.HasSuffix(r.URL.Path, id.Hash) || strings.HasSuffix(r.URL.Path, "/ware") {
						http.ServeContent(w, r, "", time.Time{}, bytes.NewReader(good))
						return
					}
					w.WriteHeader(404)
				}))
				defer httpSrv.Close()
			}
			if kind == "ca" {
				sources = append(sources, api.WarehouseLocation("ca+http"+strings.TrimPrefix(httpSrv.URL, "http")+fmt.Sprintf("/s%d", i)))
				pickToks = append(pickToks, "ca+http:holding")
			} else {
				sources = append(sources, api.WarehouseLocation(httpSrv.URL+fmt.Sprintf("/s%d/ware", i)))
				pickToks = append(pickToks, "http:holding")
			}
			if firstHolder == "" {
				firstHolder = "good"
			}
			continue
		case "missingdir":
			sources = append(sources, whAddr(kind, filepath.Join(dir, "nope")))
			pickToks = append(pickToks, scheme+":missingdir")
			missingDirs = append(missingDirs, dir)
			continue
		}
		os.MkdirAll(dir, 0755)
		p := storedWarePath(kind, dir, id)
		if cd != "lacking" {
			os.MkdirAll(filepath.Dir(p), 0755) // a lacking CA warehouse has no prefix directories for this ware
		}
		switch cd {
		case "lacking":
			pickToks = append(pickToks, scheme+":lacking")
		case "good":
			os.WriteFile(p, good, 0644)
			pickToks = append(pickToks, scheme+":holding")
		case "corrupt":
			x := append([]byte(nil), good...)
			if len(x) > 20 {
				x = x[:len(x)/2]
			}
			os.WriteFile(p, x, 0644)
			pickToks = append(pickToks, scheme+":holding")
		case "mislabelled":
			os.WriteFile(p, other, 0644)
			pickToks = append(pickToks, scheme+":holding")
		case "dirware":
			// the address holds a directory: no ware (since `fix:` 36c6728 kvfs answers not-found; it used to open, and
			// fail at the first read)
			os.MkdirAll(p, 0755)
			pickToks = append(pickToks, scheme+":lacking")
		}
		if cd == "good" || cd == "corrupt" || cd == "mislabelled" {
			srcFiles = append(srcFiles, p)
			if firstHolder == "" {
				firstHolder = cd
			}
		}
		sources = append(sources, whAddr(kind, dir))
	}
	before := map[string][]byte{}
	for _, p := range srcFiles {
		before[p], _ = os.ReadFile(p)
	}
	// full snapshots (structure, attributes, content) of every source warehouse directory that exists
	srcSnap := map[string]string{}
	for i := range conds {
		dir := filepath.Join(base, fmt.Sprintf("s%d", i))
		if sn, e := Snapshot(dir); e == nil {
			srcSnap[dir] = sn.Digest(true)
		}
	}
	tgtSnap := ""
	if tgtBlocked {
		fin := storedWarePath(tgtKind, tgt, id)
		if tgtKind == "ca" {
			// a regular file where a shard directory has to go (first or second level, by the ware's hash)
			blk := filepath.Dir(fin)
			if id.Hash[len(id.Hash)-1]%2 == 0 {
				blk = filepath.Dir(blk)
			} else {
				os.MkdirAll(filepath.Dir(blk), 0755)
			}
			os.WriteFile(blk, []byte("blocker"), 0644)
		}
		if sn, e := Snapshot(tgt); e == nil {
			tgtSnap = sn.Digest(true)
		}
	}
	if tgtShard && tgtKind == "ca" {
		fin := storedWarePath(tgtKind, tgt, id)
		os.MkdirAll(filepath.Join(filepath.Dir(filepath.Dir(fin)), "zzz"), 0755)
		os.WriteFile(filepath.Join(filepath.Dir(filepath.Dir(fin)), "zzz", "another-ware"), []byte("x"), 0644)
	}
	if tgtDangling {
		fin := storedWarePath(tgtKind, tgt, id)
		os.MkdirAll(filepath.Dir(fin), 0755)
		os.Symlink(filepath.Join(base, "pruned-volume", "blob"), fin)
	}
	if tgtOther {
		// history: the other ware was mirrored into the same target before (through the real Mirror)
		safeCall(func() (api.WareID, error) {
			return fn.mirror(ctx, oid, whAddr(tgtKind, tgt), []api.WarehouseLocation{whAddr("ca", master)}, rio.Monitor{})
		})
	}
	if warmCache {
		safeCall(func() (api.WareID, error) {
			return fn.unpack(ctx, id, "-", uf, rio.Placement_None, []api.WarehouseLocation{whAddr("ca", master)}, rio.Monitor{})
		})
	}
	// which source is picked: the model's pick
	c.EmitR(op+" #pick", "pick 0 "+strings.Join(pickToks, ";"), pickOnly(id, sources))
	_, err1, pan1 := safeCall(func() (api.WareID, error) {
		return fn.mirror(ctx, id, whAddr(tgtKind, tgt), sources, rio.Monitor{})
	})
	res := "ok"
	if pan1 != "" {
		res = "panic"
	} else if err1 != nil {
		res = "err " + catOf(err1)
	}
	if tgtAbsent {
		if _, e := os.Lstat(tgt); e == nil && res != "ok" {
			c.PropFail("mirror-target-polluted", fmt.Sprintf("a mirror into a warehouse that does not exist failed (%s) and left the directory %q behind", res, filepath.Base(tgt)), op)
			c.PropFail("scan-creates-files", fmt.Sprintf("a failed mirror (%s) created the directory %q on the local filesystem", res, filepath.Base(tgt)), op)
		}
		c.H("tgt-absent:" + strings.Fields(res)[0])
	}
	c.H("firstholder:" + firstHolder)
	c.H("res:" + strings.Fields(res)[0])
	final := storedWarePath(tgtKind, tgt, id)
	_, ferr := os.Lstat(final)
	if tgtDangling && ferr == nil {
		if l, e := os.Readlink(final); e == nil && l == filepath.Join(base, "pruned-volume", "blob") {
			ferr = os.ErrNotExist // still the dangling link that was there before: nothing was committed
		}
	}
	// ---- C13 oracle
	if tgtBlocked {
		c.H("res:target-blocked")
		if res == "ok" {
			c.PropFail("mirror-accepted-bad", "mirror reported success although the target's final address cannot be created", op)
		}
		// a failed mirror creates nothing: the target is exactly as it was (no staging file, no partial shard directories with content)
		if sn, e := Snapshot(tgt); e == nil && sn.Digest(true) != tgtSnap {
			left := ""
			filepath.Walk(tgt, func(p string, fi os.FileInfo, _ error) error {
				if fi != nil && strings.HasPrefix(fi.Name(), ".tmp.upload") {
					left = p
				}
				return nil
			})
			if left != "" {
				c.PropFail("mirror-staging-left", "a mirror whose commit failed left its staging file behind: "+strings.TrimPrefix(left, base), op)
			}
		}
	}
	otherAtAddr := tgtOther && tgtKind == "file" // the single-file address holds the other ware: see mirror-noop-other-ware below
	switch {
	case otherAtAddr:
		firstHolder = "skip"
	case tgtAbsent && tgtKind == "ca":
		firstHolder = "skip" // a content-addressed warehouse that does not exist is not created by a mirror: whatever the sources, an error
		if res == "ok" {
			c.PropFail("mirror-accepted-bad", "a mirror into a ca+file warehouse that does not exist answered success", op)
		}
	}
	switch firstHolder {
	case "skip":
	case "good":
		if tgtBlocked {
			// covered above
		} else if res != "ok" && tgtFull {
			c.H("res:target-full")
			if ferr == nil {
				c.PropFail("mirror-target-polluted", "a mirror that ran out of space left an object at the target's final address", op)
			}
		} else if res != "ok" {
			c.PropFail("mirror-failed", "mirror from a list whose first holder has a good copy failed: "+res, op)
		}
	default:
		if res == "ok" {
			c.PropFail("mirror-accepted-bad", fmt.Sprintf("mirror succeeded although the first holder is %q", firstHolder), op)
		}
		if ferr == nil && !tgtBlocked {
			c.PropFail("mirror-target-polluted", "a failed mirror left an object at the target's final address", op)
		}
	}
	if ents, e := os.ReadDir(tgt); e == nil {
		for _, d := range ents {
			if strings.HasPrefix(d.Name(), ".tmp.upload") {
				c.PropFail("mirror-staging-left", "staging file left in the target: "+d.Name(), op)
			}
		}
	}
	for p, b := range before {
		after, _ := os.ReadFile(p)
		if !bytes.Equal(after, b) {
			c.PropFail("source-mutated", "mirror modified a source warehouse: "+p, op)
		}
	}
	checkSources := func(when string) {
		for _, dir := range missingDirs {
			if _, e := os.Lstat(dir); e == nil {
				c.PropFail("source-mutated", when+" created a directory at a source location that did not exist: "+dir, op)
				os.RemoveAll(dir)
			}
		}
		for dir, dg := range srcSnap {
			if sn, e := Snapshot(dir); e != nil || sn.Digest(true) != dg {
				c.PropFail("source-mutated", when+" changed a source warehouse (files, directories or attributes): "+dir, op)
			}
		}
	}
	checkSources("mirror")
	// unpack and scan read from warehouses too: the same list of sources, nothing may change
	{
		dstU := filepath.Join(base, "dst-u")
		safeCall(func() (api.WareID, error) {
			return fn.unpack(ctx, id, dstU, uf, rio.Placement_Direct, sources, rio.Monitor{})
		})
		checkSources("unpack")
	}
	if res == "ok" {
		// the target alone serves W, identically
		dst := filepath.Join(base, "dst")
		id3, err3, pan3 := safeCall(func() (api.WareID, error) {
			return fn.unpack(ctx, id, dst, uf, rio.Placement_Direct, []api.WarehouseLocation{whAddr(tgtKind, tgt)}, rio.Monitor{})
		})
		if resTok(id3, err3, pan3) != "ok "+id.Hash && tgtOther && tgtKind == "file" {
			c.PropFail("mirror-noop-other-ware", "mirror of W into a single-file target that holds another ware (mirrored there earlier) reports success as a no-op; the target still serves the other ware: "+resTok(id3, err3, pan3), op)
		} else if resTok(id3, err3, pan3) != "ok "+id.Hash {
			c.PropFail("mirror-not-served", "unpack from the mirror target alone failed: "+resTok(id3, err3, pan3), op)
		} else if got, e := Snapshot(dst); e != nil || got.Digest(true) != truncateForFormat(fsx).Digest(true) {
			c.PropFail("mirror-not-identical", "the fileset unpacked from the target differs from the original", op)
		}
		// … to every account the warehouse's directory admits: the object is published readable (umask permitting), as the
		// source's own objects are — a target readable by its writer alone does not serve W to an http export or a build user
		if st, e := os.Stat(storedWarePath(tgtKind, tgt, id)); e == nil && !tgtOther {
			um := syscall.Umask(0)
			syscall.Umask(um)
			if want := os.FileMode(0444) &^ os.FileMode(um); st.Mode().Perm()&want != want {
				c.PropFail("mirror-not-served", fmt.Sprintf("the mirrored ware is published with mode %04o (umask %03o): no account but the one that ran the mirror can fetch it from the target", st.Mode().Perm(), um), op)
			}
			c.H("mirror-mode-checked")
		}
		// mirroring again needs no source
		_, err4, pan4 := safeCall(func() (api.WareID, error) {
			return fn.mirror(ctx, id, whAddr(tgtKind, tgt), nil, rio.Monitor{})
		})
		if err4 != nil || pan4 != "" {
			c.PropFail("mirror-again-failed", "mirroring again (no sources) did not succeed as a no-op", op)
		}
		// … and needs nothing of the target but what is there: the target made read-only (a read-only bind mount over it)
		if err4 == nil && pan4 == "" && !(tgtOther && tgtKind == "file") {
			if e1 := syscall.Mount(tgt, tgt, "", syscall.MS_BIND, ""); e1 == nil {
				if e2 := syscall.Mount("", tgt, "", syscall.MS_BIND|syscall.MS_REMOUNT|syscall.MS_RDONLY, ""); e2 == nil {
					_, err5, pan5 := safeCall(func() (api.WareID, error) {
						return fn.mirror(ctx, id, whAddr(tgtKind, tgt), nil, rio.Monitor{})
					})
					if err5 != nil || pan5 != "" {
						c.PropFail("mirror-again-failed", fmt.Sprintf("mirroring again (no sources) into a target that holds W but has become read-only did not succeed as a no-op: %v %s", err5, pan5), op)
					}
					c.H("again-readonly")
				}
				syscall.Unmount(tgt, syscall.MNT_DETACH)
			}
		}
		tb, _ := os.ReadFile(final)
		if fmtName == "tar" && !otherAtAddr && !bytes.HasPrefix(good, tb[:min(len(tb), len(good))]) {
			c.PropFail("mirror-not-identical", "the bytes at the target are not a prefix of the source ware", op)
		}
	}
	// ---- the store model (Rio/Model/MirrorStore.lean): answer, what the target alone then serves, mirroring again
	if !tgtFull && !tgtBlocked && !tgtShard && !tgtDangling && !tgtAbsent && firstHolder != "dirware" && res != "panic" {
		kind := map[string]string{"ca": "ca", "file": "mono"}[tgtKind]
		tstate := "empty"
		if tgtOther {
			tstate = "other"
		}
		srcTok := ""
		switch firstHolder {
		case "good", "httpgood":
			srcTok = "good"
		case "mislabelled":
			srcTok = "other"
		case "corrupt":
			srcTok = "corrupt"
			if fmtName == "tar" { // where does the truncated copy break off: between entries, or inside a file body?
				if _, _, toks := decodeStored(good[:len(good)/2]); strings.HasSuffix(toks, ",0") && len(good) > 20 {
					srcTok = "corrupt-body"
				}
			}
		case "":
			if pk := pickOnly(id, sources); strings.HasPrefix(pk, "err ") {
				srcTok = "none:" + strings.TrimPrefix(pk, "err ")
			}
		}
		if srcTok != "" {
			impl := "res=" + res + " alone=- again=-"
			if res == "ok" {
				id3, err3, pan3 := safeCall(func() (api.WareID, error) {
					return fn.unpack(ctx, id, filepath.Join(base, "dst-model"), uf, rio.Placement_Direct, []api.WarehouseLocation{whAddr(tgtKind, tgt)}, rio.Monitor{})
				})
				alone := strings.Fields(resTok(id3, err3, pan3))
				al := alone[0]
				if al == "err" {
					al = "err " + alone[1]
				}
				_, err4, pan4 := safeCall(func() (api.WareID, error) {
					return fn.mirror(ctx, id, whAddr(tgtKind, tgt), nil, rio.Monitor{})
				})
				ag := "ok"
				if pan4 != "" {
					ag = "panic"
				} else if err4 != nil {
					ag = "err " + catOf(err4)
				}
				impl = "res=ok alone=" + al + " again=" + ag
			}
			c.EmitR(op+" #store", fmt.Sprintf("mirrorstore %s %s %s", kind, tstate, srcTok), impl)
			c.H("store:" + kind + ":" + tstate + ":" + strings.Split(srcTok, ":")[0])
		}
	}
	// ---- cancellation at every poll of the walk (and just after it): the answer and the target agree — a mirror that
	// reports failure leaves the target without W, one that reports success leaves W there
	if firstHolder == "good" && !tgtFull && !tgtBlocked && !otherAtAddr {
		for k := 1; k <= len(fsx)+8; k++ {
			t3 := filepath.Join(base, fmt.Sprintf("tgt-c%d", k))
			os.MkdirAll(t3, 0755)
			cc := &countdownCtx{Context: context.Background(), left: k, done: make(chan struct{})}
			_, errc, panc := safeCall(func() (api.WareID, error) {
				return fn.mirror(cc, id, whAddr(tgtKind, t3), sources, rio.Monitor{})
			})
			_, fe := os.Lstat(storedWarePath(tgtKind, t3, id))
			switch {
			case panc != "":
				c.PropFail("mirror-failed", "cancelled mirror panicked: "+panc, op)
			case errc != nil && fe == nil:
				c.PropFail("mirror-target-polluted", fmt.Sprintf("a mirror cancelled at poll %d reported %s but left W committed at the target's final address", k, catOf(errc)), op)
			case errc == nil && fe != nil:
				c.PropFail("mirror-not-served", fmt.Sprintf("a mirror cancelled at poll %d reported success but the target does not hold W", k), op)
			}
			if ents, e := os.ReadDir(t3); e == nil {
				for _, d := range ents {
					if strings.HasPrefix(d.Name(), ".tmp.upload") {
						c.PropFail("mirror-staging-left", "a cancelled mirror left its staging file: "+d.Name(), op)
					}
				}
			}
			os.RemoveAll(t3)
		}
		c.H("mirror-cancel-sweep")
	}
	if ents, e := os.ReadDir(tmpDir); e == nil && len(ents) > 0 {
		c.PropFail("scan-creates-files", fmt.Sprintf("mirror / unpack of a %s ware left %d file(s) in $TMPDIR, e.g. %s", fmtName, len(ents), ents[0].Name()), op)
	}
	c.EmitR(op, "skip", "skip")
	c.Distinct(op)
}

func pickOnly(id api.WareID, sources []api.WarehouseLocation) string {
	// what PickReader does with this list, observed through Mirror's inner call is not visible; call it directly
	return pickDirect(id, sources)
}

// mirrorBrokenChunk: the source is an http server whose chunked response carries the whole ware and then breaks its
// framing (garbage where the next chunk size should be): the client's last read hands over data *and* an error. Whatever
// mirror answers, the target agrees: success ⇒ the address holds exactly the ware's bytes; failure ⇒ it holds nothing.
// Recipe: "mirror-brokenchunk <tar|zip> <ca|file>".
func mirrorBrokenChunk(c *Ctx, op string) {
	f := strings.Fields(op)
	fmtName, tgtKind := f[1], f[2]
	caseCounter++
	base := filepath.Join(c.Work, fmt.Sprintf("mbc%d", caseCounter))
	defer rmrf(base)
	src, wh, tgt := filepath.Join(base, "src"), filepath.Join(base, "wh"), filepath.Join(base, "tgt")
	os.MkdirAll(src, 0755)
	os.MkdirAll(wh, 0755)
	os.MkdirAll(tgt, 0755)
	os.Setenv("RIO_CACHE", filepath.Join(base, "cache"))
	os.WriteFile(filepath.Join(src, "f"), []byte("payload"), 0644)
	fn := funcsFor(fmtName)
	ctx := context.Background()
	id, err := fn.pack(ctx, api.PackType(fmtName), src, api.MustParseFilesetPackFilter(losslessPackStr), whAddr("file", wh), rio.Monitor{})
	if err != nil {
		c.EmitR(op, "skip", "skip")
		return
	}
	ware, _ := os.ReadFile(storedWarePath("file", wh, id))
	ln, err := net.Listen("tcp", "127.0.0.1:0")
	if err != nil {
		c.EmitR(op, "skip", "skip")
		return
	}
	defer ln.Close()
	go func() {
		for {
			cn, e := ln.Accept()
			if e != nil {
				return
			}
			go func(cn net.Conn) {
				defer cn.Close()
				buf := make([]byte, 4096)
				cn.Read(buf)
				// one segment: headers, the chunk with the whole ware, and the broken framing arrive together
				msg := []byte(fmt.Sprintf("HTTP/1.1 200 OK\r\nTransfer-Encoding: chunked\r\nContent-Type: application/octet-stream\r\n\r\n%x\r\n", len(ware)))
				msg = append(append(msg, ware...), []byte("\r\nZZZ\r\n")...)
				cn.Write(msg)
				time.Sleep(50 * time.Millisecond)
			}(cn)
		}
	}()
	source := api.WarehouseLocation("http://" + ln.Addr().String() + "/ware")
	_, merr, pan := safeCall(func() (api.WareID, error) {
		return fn.mirror(ctx, id, whAddr(tgtKind, tgt), []api.WarehouseLocation{source}, rio.Monitor{})
	})
	got, ferr := os.ReadFile(storedWarePath(tgtKind, tgt, id))
	c.EmitR(op, "skip", "skip")
	switch {
	case pan != "":
		c.PropFail("mirror-failed", "mirror from a source with broken chunk framing panicked: "+pan, op)
	case merr == nil && (ferr != nil || !bytes.Equal(got, ware)):
		c.PropFail("partial-ware-served", fmt.Sprintf("mirror from an http source whose last read returned data together with an error answered success; the target's address holds %d of the ware's %d bytes", len(got), len(ware)), op)
	case merr != nil && ferr == nil:
		c.PropFail("mirror-target-polluted", "a failed mirror left an object at the target's final address", op)
	}
	c.H("brokenchunk:" + fmtName + ":" + tgtKind + ":" + catOf(merr))
	c.Distinct(op)
}

// mirrorBrokenHalf: an http source announces the whole ware and hangs up after half of it (a read error in the middle of
// the stream, which the zip transmat spools to a local file first): scan, mirror and unpack fail, and whatever they
// spooled under $TMPDIR is gone when they return. Recipe: "mirror-brokenhalf <tar|zip>".
func mirrorBrokenHalf(c *Ctx, op string) {
	c.Begin(op)
	fmtName := strings.Fields(op)[1]
	caseCounter++
	base := filepath.Join(c.Work, fmt.Sprintf("mbh%d", caseCounter))
	defer rmrf(base)
	src, wh, tgt, tmpDir := filepath.Join(base, "src"), filepath.Join(base, "wh"), filepath.Join(base, "tgt"), filepath.Join(base, "tmp")
	for _, d := range []string{src, wh, tgt, tmpDir} {
		os.MkdirAll(d, 0755)
	}
	os.Setenv("RIO_CACHE", filepath.Join(base, "cache"))
	oldTmp := os.Getenv("TMPDIR")
	os.Setenv("TMPDIR", tmpDir)
	defer os.Setenv("TMPDIR", oldTmp)
	x := uint32(5)
	b := make([]byte, 300000)
	for j := range b {
		x = x*1664525 + 1013904223
		b[j] = byte(x >> 24)
	}
	os.WriteFile(filepath.Join(src, "f"), b, 0644)
	fn := funcsFor(fmtName)
	ctx := context.Background()
	id, err := fn.pack(ctx, api.PackType(fmtName), src, api.MustParseFilesetPackFilter(losslessPackStr), whAddr("file", wh), rio.Monitor{})
	c.EmitR(op, "skip", "skip")
	if err != nil {
		return
	}
	ware, _ := os.ReadFile(storedWarePath("file", wh, id))
	srv := httptest.NewServer(http.HandlerFunc(func(w http.ResponseWriter, r *http.Request) {
		w.Header().Set("Content-Length", fmt.Sprint(len(ware)))
		w.Write(ware[:len(ware)/2])
		if hj, ok := w.(http.Hijacker); ok {
			if cn, _, e := hj.Hijack(); e == nil {
				cn.Close()
			}
		}
	}))
	defer srv.Close()
	source := api.WarehouseLocation(srv.URL + "/ware")
	uf := api.MustParseFilesetUnpackFilter(losslessUnpackStr)
	results := map[string]string{}
	g1, e1, p1 := safeCall(func() (api.WareID, error) {
		return fn.scan(ctx, api.PackType(fmtName), uf, rio.Placement_Direct, source, rio.Monitor{})
	})
	results["scan"] = resTok(g1, e1, p1)
	g2, e2, p2 := safeCall(func() (api.WareID, error) {
		return fn.mirror(ctx, id, whAddr("ca", tgt), []api.WarehouseLocation{source}, rio.Monitor{})
	})
	results["mirror"] = resTok(g2, e2, p2)
	g3, e3, p3 := safeCall(func() (api.WareID, error) {
		return fn.unpack(ctx, id, filepath.Join(base, "dst"), uf, rio.Placement_None, []api.WarehouseLocation{source}, rio.Monitor{})
	})
	results["unpack"] = resTok(g3, e3, p3)
	for k, r := range results {
		c.H("brokenhalf:" + fmtName + ":" + k + ":" + strings.Fields(r)[0])
		if strings.HasPrefix(r, "ok") {
			c.PropFail("mirror-accepted-bad", fmt.Sprintf("%s from an http source that hung up after half of the ware answered %s", k, r), op)
		} else if r == "panic" {
			c.PropFail("mirror-panic", k+" from an http source that hung up in mid-transfer panicked", op)
		}
	}
	if ents, _ := os.ReadDir(tmpDir); len(ents) > 0 {
		c.PropFail("scan-creates-files", fmt.Sprintf("scan / mirror / unpack of a %s ware whose source broke off in mid-transfer left %d file(s) in $TMPDIR, e.g. %s", fmtName, len(ents), ents[0].Name()), op)
	}
	// the same for objects that arrive whole and are no archive: the first half of the ware, and junk
	junk := filepath.Join(base, "junk")
	os.MkdirAll(junk, 0755)
	os.WriteFile(filepath.Join(junk, "cut"), ware[:len(ware)/2], 0644)
	os.WriteFile(filepath.Join(junk, "noise"), b[:70000], 0644)
	for _, name := range []string{"cut", "noise"} {
		jsrc := api.WarehouseLocation("file://" + filepath.Join(junk, name))
		safeCall(func() (api.WareID, error) {
			return fn.scan(ctx, api.PackType(fmtName), uf, rio.Placement_Direct, jsrc, rio.Monitor{})
		})
		safeCall(func() (api.WareID, error) {
			return fn.mirror(ctx, id, whAddr("ca", tgt), []api.WarehouseLocation{jsrc}, rio.Monitor{})
		})
		safeCall(func() (api.WareID, error) {
			return fn.unpack(ctx, id, filepath.Join(base, "dst-"+name), uf, rio.Placement_Copy, []api.WarehouseLocation{jsrc}, rio.Monitor{})
		})
		if ents, _ := os.ReadDir(tmpDir); len(ents) > 0 {
			c.PropFail("scan-creates-files", fmt.Sprintf("scan / mirror / unpack of an object that is no %s archive (%s) left %d file(s) in $TMPDIR, e.g. %s", fmtName, name, len(ents), ents[0].Name()), op)
			for _, e := range ents {
				os.Remove(filepath.Join(tmpDir, e.Name()))
			}
		}
	}
	c.Distinct(op)
}

// mirrorNoTarget: a mirror that names no target ("" — the CLI's --target left out) has nowhere to put the ware: it does
// not report success. Recipe: "mirror-notarget <tar|zip>".
func mirrorNoTarget(c *Ctx, op string) {
	c.Begin(op)
	fmtName := strings.Fields(op)[1]
	caseCounter++
	base := filepath.Join(c.Work, fmt.Sprintf("mnt%d", caseCounter))
	defer rmrf(base)
	src, wh := filepath.Join(base, "src"), filepath.Join(base, "wh")
	os.MkdirAll(src, 0755)
	os.MkdirAll(wh, 0755)
	os.WriteFile(filepath.Join(src, "f"), []byte("x"), 0644)
	os.Setenv("RIO_CACHE", filepath.Join(base, "cache"))
	fn := funcsFor(fmtName)
	ctx := context.Background()
	id, err := fn.pack(ctx, api.PackType(fmtName), src, api.MustParseFilesetPackFilter(losslessPackStr), whAddr("ca", wh), rio.Monitor{})
	c.EmitR(op, "skip", "skip")
	if err != nil {
		return
	}
	// a target directory whose name holds a '#' or a '?': the ware goes where the address says, or the mirror fails
	for _, odd := range []string{"dst#v2", "dst?copy"} {
		os.MkdirAll(filepath.Join(base, odd), 0755)
		os.MkdirAll(filepath.Join(base, "dst"), 0755)
		g2, e2, p2 := safeCall(func() (api.WareID, error) {
			return fn.mirror(ctx, id, api.WarehouseLocation("ca+file://"+filepath.Join(base, odd)), []api.WarehouseLocation{whAddr("ca", wh)}, rio.Monitor{})
		})
		c.H("mirror-oddname:" + strings.Fields(resTok(g2, e2, p2))[0])
		if e2 == nil && p2 == "" {
			if _, e := os.Stat(storedWarePath("ca", filepath.Join(base, odd), id)); e != nil {
				other := "nowhere"
				if _, e3 := os.Stat(storedWarePath("ca", filepath.Join(base, "dst"), id)); e3 == nil {
					other = filepath.Join(base, "dst")
				}
				c.PropFail("mirror-not-served", fmt.Sprintf("Mirror into ca+file://%s answered success; the ware is not in that directory but in %s (the URL parser cut the address at the '#' / '?')", filepath.Join(base, odd), other), op)
			}
		}
	}
	// a source copy mislabelled by letter case (base58 is case-sensitive: the swapped spelling names another, unknown ware):
	// asked for that id from a single-object source — whose address does not depend on the hash — the mirror fails and the
	// target stays without it
	{
		swapped := strings.Map(func(r rune) rune {
			switch {
			case r >= 'a' && r <= 'z':
				return r - 32
			case r >= 'A' && r <= 'Z':
				return r + 32
			}
			return r
		}, id.Hash)
		mono := api.WarehouseLocation("file://" + storedWarePath("ca", wh, id))
		for _, tk := range []string{"ca", "file"} {
			tdir := filepath.Join(base, "case-"+tk)
			os.MkdirAll(tdir, 0755)
			asked := api.WareID{Type: id.Type, Hash: swapped}
			g3, e3, p3 := safeCall(func() (api.WareID, error) {
				return fn.mirror(ctx, asked, whAddr(tk, tdir), []api.WarehouseLocation{mono}, rio.Monitor{})
			})
			c.H("mirror-caseswap:" + strings.Fields(resTok(g3, e3, p3))[0])
			_, there := os.Stat(storedWarePath(tk, tdir, asked))
			switch {
			case p3 != "":
				c.PropFail("mirror-panic", "mirror of a case-swapped id panicked: "+p3, op)
			case e3 == nil:
				c.PropFail("mirror-accepted-bad", fmt.Sprintf("Mirror(%s) from a source whose object hashes to %s (the same letters in other case) answered success (%s)", asked, id, g3), op)
			case there == nil:
				c.PropFail("mirror-accepted-bad", fmt.Sprintf("a failed Mirror(%s) left an object at the target's address for that id", asked), op)
			}
		}
	}
	// single-object targets in directories with telling names (`ca+backup`, `x.ca+file`): what decides how a target is
	// addressed is its scheme. The slot holds another ware (or junk); after a successful mirror of W it serves W
	{
		src2 := filepath.Join(base, "src2")
		os.MkdirAll(src2, 0755)
		os.WriteFile(filepath.Join(src2, "other"), []byte("another ware"), 0644)
		for k, dn := range []string{"mirrors/ca+backup", "x.ca+file", "plain"} {
			slot := filepath.Join(base, dn, "ware."+fmtName)
			os.MkdirAll(filepath.Dir(slot), 0755)
			tgt := api.WarehouseLocation("file://" + slot)
			if k%2 == 0 {
				fn.pack(ctx, api.PackType(fmtName), src2, api.MustParseFilesetPackFilter(losslessPackStr), tgt, rio.Monitor{})
			} else {
				os.WriteFile(slot, []byte("junk that is no archive"), 0644)
			}
			g4, e4, p4 := safeCall(func() (api.WareID, error) {
				return fn.mirror(ctx, id, tgt, []api.WarehouseLocation{whAddr("ca", wh)}, rio.Monitor{})
			})
			c.H("mirror-slotname:" + strings.Fields(resTok(g4, e4, p4))[0])
			if p4 != "" {
				c.PropFail("mirror-panic", "mirror into an occupied single-object target panicked: "+p4, op)
			} else if e4 == nil {
				g5, e5, p5 := safeCall(func() (api.WareID, error) {
					return fn.unpack(ctx, id, filepath.Join(base, fmt.Sprintf("slot-dst%d", k)), api.MustParseFilesetUnpackFilter(losslessUnpackStr), rio.Placement_Direct, []api.WarehouseLocation{tgt}, rio.Monitor{})
				})
				if r := resTok(g5, e5, p5); r != "ok "+id.Hash {
					c.PropFail("mirror-not-served", fmt.Sprintf("Mirror(W -> %s) answered success (the slot held something else before); the target alone answers %s", tgt, r), op)
				}
			}
		}
	}
	got, merr, pan := safeCall(func() (api.WareID, error) {
		return fn.mirror(ctx, id, "", []api.WarehouseLocation{whAddr("ca", wh)}, rio.Monitor{})
	})
	c.H("mirror-notarget:" + resTok(got, merr, pan))
	switch {
	case pan != "":
		c.PropFail("mirror-panic", "mirror without a target panicked: "+pan, op)
	case merr == nil:
		c.PropFail("mirror-not-served", fmt.Sprintf("Mirror(%s, target \"\") answered %s: success, and the ware was stored nowhere", id, got), op)
	}
}

func mirrorEngine(c *Ctx) {
	if ls := replayLines(); ls != nil {
		for _, op := range ls {
			if strings.HasPrefix(op, "mirror ") && !strings.Contains(op, " #") {
				mirrorExec(c, op)
			} else if strings.HasPrefix(op, "mirror-brokenchunk ") {
				mirrorBrokenChunk(c, op)
			} else if strings.HasPrefix(op, "mirror-notarget ") {
				mirrorNoTarget(c, op)
			} else if strings.HasPrefix(op, "mirror-brokenhalf ") {
				mirrorBrokenHalf(c, op)
			}
		}
		return
	}
	for _, fm := range []string{"tar", "zip"} {
		for _, k := range []string{"ca", "file"} {
			mirrorBrokenChunk(c, fmt.Sprintf("mirror-brokenchunk %s %s", fm, k))
		}
	}
	mirrorBrokenHalf(c, "mirror-brokenhalf zip")
	mirrorBrokenHalf(c, "mirror-brokenhalf tar")
	mirrorNoTarget(c, "mirror-notarget tar")
	mirrorNoTarget(c, "mirror-notarget zip")
	n := 12
	if c.Tier == "thorough" {
		n = 200
	}
	conds := []string{"missingdir", "lacking", "good", "good", "corrupt", "mislabelled", "dirware", "httpgood"}
	for k := 0; k < n; k++ {
		fmtName := []string{"tar", "tar", "zip"}[k%3]
		fsx := c.GenFileset(GenOpts{MaxEntries: 5, Kinds: "ffdL", MaxContent: 400})
		sanitizeForRoundtrip(fsx, "zip")
		sz := []int{0, 1, 32767, 32768, 32769, 65535, 65537, 1 << 20}[c.Intn(8)]
		if c.Tier != "thorough" && sz == 1<<20 {
			sz = 70000
		}
		body := make([]byte, sz)
		for i := range body {
			body[i] = byte(c.Rand())
		}
		if c.Chance(1, 2) { // compressible payload: compressed size straddles other boundaries
			for i := range body {
				body[i] = byte(i % 7)
			}
		}
		fsx = append(fsx, Entry{Name: "blob", Kind: 'f', Perms: 0644, Uid: 1, Gid: 1, Sec: 1e9, Content: body})
		l := 1 + c.Intn(4)
		var cs []string
		for i := 0; i < l; i++ {
			cs = append(cs, conds[c.Intn(len(conds))])
		}
		// permanent corpus of source lists: something that is read (and must not be written) ahead of the holder
		fixed := [][]string{{"lacking", "good"}, {"good", "lacking"}, {"lacking", "lacking"}, {"missingdir", "good"}, {"lacking", "httpgood"},
			{"dirware", "good"}, {"corrupt", "good"}, {"mislabelled", "lacking", "good"}, {"httpgood"}, {"missingdir", "lacking", "httpgood", "good"},
			{"missingdir"}, {"lacking", "missingdir", "lacking"}}
		if k < len(fixed) {
			cs = fixed[k]
		}
		tk := []string{"ca", "file"}[c.Intn(2)]
		switch {
		case k == 0:
			tk = "ca@"
		case k == 5:
			tk = "file@"
		case k == 3 || k == 8:
			tk = "ca%"
		case k == 1 || k == 4:
			tk = "ca#"
		case k == 2: // no source has the ware: plain targets, so that the writer really is opened
			tk = "file"
		case k == 9:
			tk = "file+"
		case k == 6:
			tk = "ca="
		case k == 10:
			tk = "ca^"
		case k == 11:
			tk = "file"
		case k == 7:
			tk = "ca+"
		case c.Chance(1, 4):
			tk += "!"
		case c.Chance(1, 4):
			tk = "ca#"
		case c.Chance(1, 5):
			tk += "+"
		case c.Chance(1, 5):
			tk += "@"
		case c.Chance(1, 5):
			tk = "ca%"
		case c.Chance(1, 4):
			tk += "="
		case c.Chance(1, 5):
			tk = "ca^"
		}
		mirrorExec(c, fmt.Sprintf("mirror %s %s %s %s", fmtName, tk, strings.Join(cs, ","), filesetTok(fsx)))
	}
}
