package main

import (
	"context"
	"fmt"
	"os"
	"path/filepath"
	"strings"

	api "github.com/polydawn/go-timeless-api"
	"github.com/polydawn/go-timeless-api/rio"
	"github.com/polydawn/refmt/misc"
)

// packnames: the names other tools give their bookkeeping files are ordinary names to rio. Filesets holding staging-file
// names (`.tmp.upload.*`, `.tmp.unpack.*`), overlay/aufs whiteout names (`.wh.*`), vcs directories, editor droppings,
// a warehouse laid out by rio itself — packed (tar and zip) from disk:
//   - the id is the reference tree hash of the *whole* fileset (an entry that never reaches the pack is an entry two
//     different filesets can differ in without their ids differing)                         -> class pack-entry-ignored
//   - the id does not depend on whether, and where, the ware is saved                       -> class pack-env
//   - dropping any one such entry, or changing its bytes, changes the id                    -> class collision
//
// Recipe: "packnames <tar|zip> <k>".
func init() { engines["packnames"] = packnamesEngine }

var packnamesSets = [][]string{
	{".wh.note", "sub/.wh.note", "sub/.wh..wh..opq", ".wh..wh.plnk/x"},
	{".tmp.upload.k3f9", "sub/.tmp.upload.ware.tgz.n3t8vxbw-833t875s-91zqyf44", ".tmp.unpack.n3t8vxbw/inner"},
	{".git/HEAD", ".git/objects/ab/cdef", ".gitignore", ".svn/entries", "lost+found/x"},
	{"4fE/XBU/4fEXBUGMgz", ".tmp.upload.4fEXBUGMgz", "tar/fileset/4fE/XBU/4fEXBUGMgz/f"},
	{"#recycle/x", ".nfs000000000001", "core", ".#lock", "a~", "Thumbs.db", ".DS_Store", "._x"},
	// a backslash is an ordinary byte of a name (no separator): `d\\c` is one file in the root, not `c` in `d`
	{"d\\c", "d/c", "back\\slash/x", "\\", "a\\", "C:\\Users\\x"},
}

func packnamesEngine(c *Ctx) {
	if ls := replayLines(); ls != nil {
		for _, op := range ls {
			if strings.HasPrefix(op, "packnames ") {
				packnamesExec(c, op)
			}
		}
		return
	}
	for _, fm := range []string{"tar", "zip"} {
		for k := range packnamesSets {
			packnamesExec(c, fmt.Sprintf("packnames %s %d", fm, k))
		}
	}
}

func packnamesExec(c *Ctx, op string) {
	c.Begin(op)
	f := strings.Fields(op)
	fmtName := f[1]
	k := 0
	fmt.Sscan(f[2], &k)
	if k < 0 || k >= len(packnamesSets) {
		return
	}
	caseCounter++
	base := filepath.Join(c.Work, fmt.Sprintf("pn%d", caseCounter))
	defer rmrf(base)
	os.MkdirAll(base, 0755)
	build := func(names []string, content string) Fileset {
		fsx := Fileset{{Name: "", Kind: 'd', Perms: 0755, Uid: 3, Gid: 4, Sec: 1e9}, {Name: "plain", Kind: 'f', Perms: 0644, Uid: 3, Gid: 4, Sec: 1e9, Content: []byte("p")}}
		have := map[string]bool{"": true}
		for _, n := range names {
			segs := strings.Split(n, "/")
			for i := 1; i < len(segs); i++ {
				d := strings.Join(segs[:i], "/")
				if !have[d] {
					have[d] = true
					fsx = append(fsx, Entry{Name: d, Kind: 'd', Perms: 0750, Uid: 3, Gid: 4, Sec: 1e9 + 60})
				}
			}
			if !have[n] {
				have[n] = true
				fsx = append(fsx, Entry{Name: n, Kind: 'f', Perms: 0640, Uid: 5, Gid: 6, Sec: 1e9 + 120, Content: []byte(content + n)})
			}
		}
		return fsx
	}
	fn := funcsFor(fmtName)
	pf := api.MustParseFilesetPackFilter(losslessPackStr)
	ctx := context.Background()
	seq := 0
	pk := func(fsx Fileset, target func(dir string) api.WarehouseLocation) string {
		seq++
		dir := filepath.Join(base, fmt.Sprintf("set%d", seq))
		if Materialize(fsx, dir, nil) != nil {
			return "materialize-failed"
		}
		tgt := api.WarehouseLocation("")
		if target != nil {
			tgt = target(dir)
		}
		id, err, pan := safeCall(func() (api.WareID, error) {
			return fn.pack(ctx, api.PackType(fmtName), dir, pf, tgt, rio.Monitor{})
		})
		return resTok(id, err, pan)
	}
	names := packnamesSets[k]
	full := build(names, "one:")
	got := pk(full, nil)
	c.EmitR(op, fmt.Sprintf("pack %s %s %s", fmtName, filterInts(pf), entriesTokForModel(full)), got)
	c.H("packnames:" + fmtName + ":" + strings.Fields(got)[0])
	if !strings.HasPrefix(got, "ok ") {
		c.PropFail("pack-entry-ignored", fmt.Sprintf("a fileset of ordinary files and directories named %q does not pack: %s", names, got), op)
		return
	}
	if want := "ok " + misc.Base58Encode(RefTreeHash(full, sha384)); got != want {
		c.PropFail("pack-entry-ignored", fmt.Sprintf("the fileset with entries %q packs to %s; the reference tree hash of the whole fileset is %s (some entry never reached the pack)", names, got, want), op)
	}
	wh := filepath.Join(base, "wh")
	os.MkdirAll(wh, 0755)
	for how, tg := range map[string]func(string) api.WarehouseLocation{
		"saved to a ca+file warehouse": func(string) api.WarehouseLocation { return api.WarehouseLocation("ca+file://" + wh) },
		"saved to a file warehouse": func(string) api.WarehouseLocation {
			return api.WarehouseLocation("file://" + filepath.Join(wh, "mono.w"))
		},
	} {
		if g := pk(full, tg); g != got {
			c.PropFail("pack-env", fmt.Sprintf("the fileset with entries %q packs to %s when %s and to %s when not saved", names, g, how, got), op)
		}
	}
	// what was stored scans to the id the pack answered (the reading side sees the same names the writing side saw)
	for _, tk := range []string{"ca"} {
		stored := storedWarePath(tk, wh, api.WareID{Type: api.PackType(fmtName), Hash: strings.TrimPrefix(got, "ok ")})
		sid, serr, span := safeCall(func() (api.WareID, error) {
			return fn.scan(ctx, api.PackType(fmtName), api.MustParseFilesetUnpackFilter(losslessUnpackStr), rio.Placement_None, api.WarehouseLocation("file://"+stored), rio.Monitor{})
		})
		if r := resTok(sid, serr, span); r != got {
			c.PropFail("collision", fmt.Sprintf("the fileset with entries %q packs to %s; a scan of the ware that pack wrote answers %s (the reader takes the names for another tree)", names, got, r), op)
		}
	}
	// one entry fewer / other bytes in one entry: another fileset, another id
	for i, n := range names {
		var fewer []string
		fewer = append(fewer, names[:i]...)
		fewer = append(fewer, names[i+1:]...)
		if g := pk(build(fewer, "one:"), nil); g == got {
			c.PropFail("collision", fmt.Sprintf("the fileset with and the fileset without the entry %q pack to the same id %s", n, got), op)
		}
	}
	if g := pk(build(names, "two:"), nil); g == got {
		c.PropFail("collision", fmt.Sprintf("filesets differing in the bytes of %q pack to the same id %s", names, got), op)
	}
}
