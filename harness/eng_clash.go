package main

import (
	"archive/tar"
	"archive/zip"
	"bytes"
	"context"
	"fmt"
	"os"
	"path/filepath"
	"strings"
	"syscall"
	"time"

	api "github.com/polydawn/go-timeless-api"
	"github.com/polydawn/go-timeless-api/rio"
)

func init() { engines["clash"] = clashEngine }

type clashEnt struct {
	name string
	kind byte // 'f', 'd', 'L'
	link string
}

// clash: archives in which one name is a directory and something else at once, or something that is no directory has
// children (`a` then `a/b`; `a/` then `a`; `a` -> /etc then `a/` then `a/b`; `./` then a regular file `.`). They describe
// no fileset. Whatever id a scan answers for one, an unpack of that id from the same archive delivers; whatever a mirror
// accepts, its target serves. Recipe: "clash <tar|zip> <k>".
func clashExec(c *Ctx, op string) {
	c.Begin(op)
	f := strings.Fields(op)
	fmtName := f[1]
	k := 0
	fmt.Sscan(f[2], &k)
	shapes := [][]clashEnt{
		{{"./", 'd', ""}, {"a", 'f', ""}, {"a/b", 'f', ""}},
		{{"./", 'd', ""}, {"a/b", 'f', ""}, {"a", 'f', ""}},
		{{"./", 'd', ""}, {"a/", 'd', ""}, {"a/b", 'f', ""}, {"a", 'f', ""}},
		{{"./", 'd', ""}, {"a", 'f', ""}, {"a/", 'd', ""}},
		{{"./", 'd', ""}, {"a", 'L', "/etc"}, {"a/", 'd', ""}, {"a/b", 'f', ""}},
		{{"./", 'd', ""}, {"a", 'L', "d"}, {"d/", 'd', ""}, {"a/b", 'f', ""}},
		{{"./", 'd', ""}, {"x", 'f', ""}, {".", 'f', ""}},
		{{".", 'f', ""}, {"./", 'd', ""}, {"x", 'f', ""}},
		{{"./", 'd', ""}, {"d/", 'd', ""}, {"d/e", 'L', "x"}, {"d/e/", 'd', ""}},
		{{"./", 'd', ""}, {"d/", 'd', ""}, {"d/e/f/g", 'f', ""}, {"d/e/f", 'f', ""}},
	}
	shape := shapes[k%len(shapes)]
	caseCounter++
	base := filepath.Join(c.Work, fmt.Sprintf("cl%d", caseCounter))
	defer rmrf(base)
	os.MkdirAll(filepath.Join(base, "wh2"), 0755)
	os.Setenv("RIO_CACHE", filepath.Join(base, "cache"))
	os.Setenv("RIO_BASE", filepath.Join(base, "riobase"))
	var buf bytes.Buffer
	t0 := time.Unix(1e9, 0)
	if fmtName == "tar" {
		tw := tar.NewWriter(&buf)
		for _, e := range shape {
			h := &tar.Header{Name: e.name, Mode: 0644, ModTime: t0, Typeflag: tar.TypeReg, Format: tar.FormatPAX}
			switch e.kind {
			case 'd':
				h.Typeflag, h.Mode = tar.TypeDir, 0755
			case 'L':
				h.Typeflag, h.Linkname, h.Mode = tar.TypeSymlink, e.link, 0777
			default:
				h.Size = 1
			}
			tw.WriteHeader(h)
			if e.kind == 'f' {
				tw.Write([]byte("x"))
			}
		}
		tw.Close()
	} else {
		zw := zip.NewWriter(&buf)
		for _, e := range shape {
			h := &zip.FileHeader{Name: e.name, Method: zip.Store, Modified: t0}
			body := ""
			switch e.kind {
			case 'd':
				h.SetMode(os.ModeDir | 0755)
			case 'L':
				h.SetMode(os.ModeSymlink | 0777)
				body = e.link
			default:
				h.SetMode(0644)
				body = "x"
			}
			w, err := zw.CreateHeader(h)
			if err != nil {
				c.EmitR(op, "skip", "skip")
				return
			}
			w.Write([]byte(body))
		}
		zw.Close()
	}
	ware := filepath.Join(base, "ware")
	os.WriteFile(ware, buf.Bytes(), 0644)
	c.EmitR(op, "skip", "skip")
	ctx := context.Background()
	fn := funcsFor(fmtName)
	uf := api.MustParseFilesetUnpackFilter(losslessUnpackStr)
	src := api.WarehouseLocation("file://" + ware)
	sid, serr, span := safeCall(func() (api.WareID, error) {
		return fn.scan(ctx, api.PackType(fmtName), uf, rio.Placement_Direct, src, rio.Monitor{})
	})
	c.H(fmt.Sprintf("clash:%s:%d:scan=%s", fmtName, k%len(shapes), strings.Fields(resTok(sid, serr, span))[0]))
	if span != "" {
		c.PropFail("panic-scan", "scan of an archive with a name that is both a directory and something else panicked: "+span, op)
		return
	}
	if serr != nil {
		if !strings.HasPrefix(catOf(serr), "rio-") {
			c.PropFail("uncategorized-error", "scan refuses the archive without a category: "+serr.Error(), op)
		}
		return
	}
	_, uerr, upan := safeCall(func() (api.WareID, error) {
		return fn.unpack(ctx, sid, filepath.Join(base, "dst"), uf, rio.Placement_Direct, []api.WarehouseLocation{src}, rio.Monitor{})
	})
	if uerr != nil || upan != "" {
		c.PropFail("format", fmt.Sprintf("scan answers %s for an archive that describes no fileset (one name is a directory and something else): the unpack of that id from the same archive answers %s", sid, resTok(api.WareID{}, uerr, upan)), op)
	}
	_, merr, mpan := safeCall(func() (api.WareID, error) {
		return fn.mirror(ctx, sid, whAddr("ca", filepath.Join(base, "wh2")), []api.WarehouseLocation{src}, rio.Monitor{})
	})
	if merr == nil && mpan == "" {
		_, u2, p2 := safeCall(func() (api.WareID, error) {
			return fn.unpack(ctx, sid, filepath.Join(base, "dst2"), uf, rio.Placement_Direct, []api.WarehouseLocation{whAddr("ca", filepath.Join(base, "wh2"))}, rio.Monitor{})
		})
		if u2 != nil || p2 != "" {
			c.PropFail("mirror-not-served", fmt.Sprintf("mirror accepted %s from an archive in which one name is a directory and something else; its target cannot be unpacked: %s", sid, resTok(api.WareID{}, u2, p2)), op)
		}
	}
	c.Distinct(op)
}

func clashEngine(c *Ctx) {
	if ls := replayLines(); ls != nil {
		for _, op := range ls {
			if strings.HasPrefix(op, "clash ") {
				clashExec(c, op)
			} else if strings.HasPrefix(op, "unplaceable ") {
				unplaceableExec(c, op)
			} else if strings.HasPrefix(op, "latefault ") {
				lateFaultExec(c, op)
			}
		}
		return
	}
	for _, fm := range []string{"tar", "zip"} {
		for k := 0; k < 10; k++ {
			clashExec(c, fmt.Sprintf("clash %s %d", fm, k))
		}
		for k := 0; k < 5; k++ {
			unplaceableExec(c, fmt.Sprintf("unplaceable %s %d", fm, k))
		}
		lateFaultExec(c, "latefault "+fm)
	}
}

// unplaceable: archives that describe a fileset no Linux file system can hold — a name component longer than NAME_MAX
// (listed, or only implied as a parent), a link target longer than PATH_MAX, a path longer than PATH_MAX. A scan reads them
// (nothing is placed); an unpack, direct or through the cache, answers a documented rio category — the one a CLI maps to an
// exit code — and never panics. Recipe: "unplaceable <tar|zip> <k>".
func unplaceableExec(c *Ctx, op string) {
	c.Begin(op)
	f := strings.Fields(op)
	fmtName := f[1]
	k := 0
	fmt.Sscan(f[2], &k)
	long := strings.Repeat("d", 300)
	deep := strings.TrimSuffix(strings.Repeat(strings.Repeat("p", 200)+"/", 25), "/")
	shapes := [][]clashEnt{
		{{long + "/f", 'f', ""}}, // the parent is only implied
		{{"./", 'd', ""}, {long + "/", 'd', ""}, {long + "/f", 'f', ""}}, // … or listed
		{{"./", 'd', ""}, {"ok/", 'd', ""}, {"ok/" + long, 'f', ""}},
		{{"./", 'd', ""}, {"l", 'L', strings.Repeat("t", 5000)}},
		{{deep + "/f", 'f', ""}},
	}
	shape := shapes[k%len(shapes)]
	caseCounter++
	base := filepath.Join(c.Work, fmt.Sprintf("up%d", caseCounter))
	defer rmrf(base)
	os.MkdirAll(base, 0755)
	os.Setenv("RIO_CACHE", filepath.Join(base, "cache"))
	os.Setenv("RIO_BASE", filepath.Join(base, "riobase"))
	var buf bytes.Buffer
	t0 := time.Unix(1e9, 0)
	if fmtName == "tar" {
		tw := tar.NewWriter(&buf)
		for _, e := range shape {
			h := &tar.Header{Name: e.name, Mode: 0644, ModTime: t0, Typeflag: tar.TypeReg, Format: tar.FormatPAX}
			switch e.kind {
			case 'd':
				h.Typeflag, h.Mode = tar.TypeDir, 0755
			case 'L':
				h.Typeflag, h.Linkname, h.Mode = tar.TypeSymlink, e.link, 0777
			default:
				h.Size = 1
			}
			if tw.WriteHeader(h) != nil {
				c.EmitR(op, "skip", "skip")
				return
			}
			if e.kind == 'f' {
				tw.Write([]byte("x"))
			}
		}
		tw.Close()
	} else {
		zw := zip.NewWriter(&buf)
		for _, e := range shape {
			h := &zip.FileHeader{Name: e.name, Method: zip.Store, Modified: t0}
			body := ""
			switch e.kind {
			case 'd':
				h.SetMode(os.ModeDir | 0755)
			case 'L':
				h.SetMode(os.ModeSymlink | 0777)
				body = e.link
			default:
				h.SetMode(0644)
				body = "x"
			}
			w, err := zw.CreateHeader(h)
			if err != nil {
				c.EmitR(op, "skip", "skip")
				return
			}
			w.Write([]byte(body))
		}
		zw.Close()
	}
	ware := filepath.Join(base, "ware")
	os.WriteFile(ware, buf.Bytes(), 0644)
	c.EmitR(op, "skip", "skip")
	ctx := context.Background()
	fn := funcsFor(fmtName)
	uf := api.MustParseFilesetUnpackFilter(losslessUnpackStr)
	src := api.WarehouseLocation("file://" + ware)
	sid, serr, span := safeCall(func() (api.WareID, error) {
		return fn.scan(ctx, api.PackType(fmtName), uf, rio.Placement_Direct, src, rio.Monitor{})
	})
	c.H(fmt.Sprintf("unplaceable:%s:%d:scan=%s", fmtName, k%len(shapes), strings.Fields(resTok(sid, serr, span))[0]))
	if span != "" {
		c.PropFail("panic-scan", "scan of an archive with an over-long name panicked: "+span, op)
		return
	}
	documented := func(e error) (ok bool) {
		defer func() {
			if recover() != nil {
				ok = false
			}
		}()
		if !strings.HasPrefix(catOf(e), "rio-") {
			return false
		}
		rio.ExitCodeForError(e) // panics on a category it has no exit code for
		return true
	}
	if serr != nil {
		if !documented(serr) {
			c.PropFail("uncategorized-error", "scan refuses the archive with an error outside the documented categories: "+catOf(serr)+": "+serr.Error(), op)
		}
		return
	}
	for _, pm := range []rio.PlacementMode{rio.Placement_Direct, rio.Placement_Copy, rio.Placement_None} {
		_, uerr, upan := safeCall(func() (api.WareID, error) {
			return fn.unpack(ctx, sid, filepath.Join(base, "dst-"+string(pm)), uf, pm, []api.WarehouseLocation{src}, rio.Monitor{})
		})
		c.H(fmt.Sprintf("unplaceable:%s:%d:%s=%s", fmtName, k%len(shapes), pm, strings.Join(strings.Fields(resTok(api.WareID{}, uerr, upan))[:min(2, len(strings.Fields(resTok(api.WareID{}, uerr, upan))))], "_")))
		if upan != "" {
			c.PropFail("unpack-panic", fmt.Sprintf("unpack (%s) of an archive with an over-long name panicked: %s", pm, upan), op)
		} else if uerr != nil && !documented(uerr) {
			msg := uerr.Error()
			if len(msg) > 300 {
				msg = msg[:300]
			}
			c.PropFail("uncategorized-error", fmt.Sprintf("unpack (%s) of an archive whose entries no file system can hold fails with an error outside the documented categories (a CLI has no exit code for it): %s: %s", pm, catOf(uerr), msg), op)
		}
	}
}

// latefault: the file system under the destination turns read-only while an unpack is in its last phase — every entry is
// placed, the closing pass over the directories (their mtimes) is under way. Thousands of directories make that pass long;
// a watcher remounts the destination's tmpfs read-only the moment the archive's last entry shows up. Whatever the unpack
// answers then, an error carries a documented category. Recipe: "latefault <tar|zip>".
func lateFaultExec(c *Ctx, op string) {
	c.Begin(op)
	fmtName := strings.Fields(op)[1]
	c.EmitR(op, "skip", "skip")
	var buf bytes.Buffer
	t0 := time.Unix(1e9, 0)
	const nd = 5000
	if fmtName == "tar" {
		tw := tar.NewWriter(&buf)
		tw.WriteHeader(&tar.Header{Name: "./", Typeflag: tar.TypeDir, Mode: 0755, ModTime: t0})
		for i := 0; i < nd; i++ {
			tw.WriteHeader(&tar.Header{Name: fmt.Sprintf("./d%05d/", i), Typeflag: tar.TypeDir, Mode: 0755, ModTime: t0})
		}
		tw.WriteHeader(&tar.Header{Name: "./zz-last", Typeflag: tar.TypeReg, Mode: 0644, ModTime: t0, Size: 1})
		tw.Write([]byte("x"))
		tw.Close()
	} else {
		zw := zip.NewWriter(&buf)
		mk := func(n string, dir bool) {
			h := &zip.FileHeader{Name: n, Method: zip.Store, Modified: t0}
			if dir {
				h.SetMode(os.ModeDir | 0755)
			} else {
				h.SetMode(0644)
			}
			w, _ := zw.CreateHeader(h)
			if !dir {
				w.Write([]byte("x"))
			}
		}
		mk("./", true)
		for i := 0; i < nd; i++ {
			mk(fmt.Sprintf("d%05d/", i), true)
		}
		mk("zz-last", false)
		zw.Close()
	}
	fn := funcsFor(fmtName)
	uf := api.MustParseFilesetUnpackFilter(losslessUnpackStr)
	for round := 0; round < 3; round++ {
		caseCounter++
		base := filepath.Join(c.Work, fmt.Sprintf("lf%d", caseCounter))
		mnt := filepath.Join(base, "mnt")
		os.MkdirAll(mnt, 0755)
		ware := filepath.Join(base, "ware")
		os.WriteFile(ware, buf.Bytes(), 0644)
		os.Setenv("RIO_CACHE", filepath.Join(base, "cache"))
		src := api.WarehouseLocation("file://" + ware)
		sid, serr, _ := safeCall(func() (api.WareID, error) {
			return fn.scan(context.Background(), api.PackType(fmtName), uf, rio.Placement_None, src, rio.Monitor{})
		})
		if serr != nil || syscall.Mount("tmpfs", mnt, "tmpfs", 0, "size=64m") != nil {
			c.H("latefault:skipped")
			rmrf(base)
			return
		}
		dst := filepath.Join(mnt, "dst")
		stop := make(chan struct{})
		done := make(chan bool, 1)
		go func() {
			for {
				select {
				case <-stop:
					done <- false
					return
				default:
				}
				// (the last thing PlaceFile does to an entry is its mtime: once the last entry carries it, only the closing pass is left)
				if st, e := os.Lstat(filepath.Join(dst, "zz-last")); e == nil && st.ModTime().Unix() == t0.Unix() {
					deadline := time.Now().Add(2 * time.Second)
					for time.Now().Before(deadline) {
						if syscall.Mount("tmpfs", mnt, "tmpfs", syscall.MS_REMOUNT|syscall.MS_RDONLY, "size=64m") == nil {
							done <- true
							return
						}
					}
					done <- false
					return
				}
			}
		}()
		_, uerr, upan := safeCall(func() (api.WareID, error) {
			return fn.unpack(context.Background(), sid, dst, uf, rio.Placement_Direct, []api.WarehouseLocation{src}, rio.Monitor{})
		})
		close(stop)
		remounted := <-done
		c.H(fmt.Sprintf("latefault:%s:remounted=%v:%s", fmtName, remounted, strings.Join(strings.Fields(resTok(api.WareID{}, uerr, upan))[:min(2, len(strings.Fields(resTok(api.WareID{}, uerr, upan))))], "_")))
		if upan != "" {
			c.PropFail("unpack-panic", "an unpack whose destination turned read-only in its last phase panicked: "+upan, op)
		} else if uerr != nil {
			ok := strings.HasPrefix(catOf(uerr), "rio-")
			func() {
				defer func() {
					if recover() != nil {
						ok = false
					}
				}()
				rio.ExitCodeForError(uerr)
			}()
			if !ok {
				msg := uerr.Error()
				if len(msg) > 300 {
					msg = msg[:300]
				}
				c.PropFail("uncategorized-error", fmt.Sprintf("the destination turned read-only while the %s unpack was in its closing pass: the error is outside the documented categories (a CLI has no exit code for it): %s: %s", fmtName, catOf(uerr), msg), op)
			}
		}
		syscall.Unmount(mnt, syscall.MNT_DETACH)
		rmrf(base)
	}
}
