package main

import (
	"fmt"
	gopath "path"
	"reflect"
	"strings"

	"github.com/polydawn/rio/fs"
)

func init() { engines["path"] = pathEngine }

func relFields(p fs.RelPath) (string, int) {
	v := reflect.ValueOf(p)
	return v.Field(0).String(), int(v.Field(1).Int())
}
func absFields(p fs.AbsolutePath) (string, int) {
	v := reflect.ValueOf(p)
	return v.Field(0).String(), int(v.Field(1).Int())
}
func showRel(p fs.RelPath) string {
	s, l := relFields(p)
	return fmt.Sprintf("%s,%d", hx(s), l)
}
func showAbs(p fs.AbsolutePath) string {
	s, l := absFields(p)
	return fmt.Sprintf("%s,%d", hx(s), l)
}
func showRels(ps []fs.RelPath) string {
	var ss []string
	for _, p := range ps {
		ss = append(ss, showRel(p))
	}
	return strings.Join(ss, ";")
}
func b01(b bool) string {
	if b {
		return "1"
	}
	return "0"
}

func tryRel(s string) (p fs.RelPath, ok bool) {
	defer func() {
		if r := recover(); r != nil {
			ok = false
		}
	}()
	return fs.MustRelPath(s), true
}

// pathExec runs one op on the implementation and the property oracle for C18.
func pathExec(c *Ctx, op string) string {
	f := strings.Fields(op)
	switch f[1] {
	case "clean":
		return hx(gopath.Clean(unhx(f[2])))
	case "rel":
		s := unhx(f[2])
		p, ok := tryRel(s)
		cl := gopath.Clean(s)
		if !ok {
			if !strings.HasPrefix(cl, "/") {
				c.PropFail("mustrel-panic", "MustRelPath panicked on a relative string", op)
			}
			c.H("rel:panic")
			return "panic"
		}
		// --- property oracle (C18), independent of the Lean model ---
		up := cl == ".." || strings.HasPrefix(cl, "../")
		if p.GoesUp() != up {
			c.PropFail("goesup", fmt.Sprintf("GoesUp=%v but cleaned form %q", p.GoesUp(), cl), op)
		}
		if up {
			c.H("rel:goesup")
		} else {
			c.H("rel:inside")
		}
		if q, ok2 := tryRel(p.String()); !ok2 || q != p {
			c.PropFail("canonical", "MustRelPath(p.String()) != p", op)
		}
		wantStr := cl
		if !up && cl != "." {
			wantStr = "./" + cl
		}
		if p.String() != wantStr {
			c.PropFail("string", fmt.Sprintf("String()=%q want %q", p.String(), wantStr), op)
		}
		sp := p.Split()
		if len(sp) == 0 || sp[0] != (fs.RelPath{}) || sp[len(sp)-1] != p {
			c.PropFail("split", "Split does not run from '.' to p", op)
		}
		for i := 0; i+1 < len(sp); i++ {
			if sp[i+1].Dir() != sp[i] {
				c.PropFail("split", "Split is not the chain of ancestors", op)
			}
			if i+1 < len(sp)-0 && sp[i+1] == sp[i] {
				c.PropFail("split", "Split repeats an element", op)
			}
		}
		if !up && cl != "." {
			if len(sp) != strings.Count(cl, "/")+2 {
				c.PropFail("split", "Split has wrong length", op)
			}
			// Dir/Last invert Join for the last segment
			if p.Dir().Join(fs.MustRelPath(p.Last())) != p {
				c.PropFail("dirlast", "Dir().Join(Last()) != p", op)
			}
		}
		spp := p.SplitParent()
		if cl != "." {
			if len(spp) != len(sp)-1 {
				c.PropFail("splitparent", "SplitParent is not Split minus the path", op)
			} else {
				for i := range spp {
					if spp[i] != sp[i] {
						c.PropFail("splitparent", "SplitParent is not Split minus the path", op)
					}
				}
			}
		} else if len(spp) != 0 {
			c.PropFail("splitparent", "SplitParent('.') not empty", op)
		}
		c.Distinct("rel:" + cl)
		return fmt.Sprintf("p=%s str=%s dir=%s last=%s up=%s split=%s sp=%s",
			showRel(p), hx(p.String()), showRel(p.Dir()), hx(p.Last()), b01(p.GoesUp()), showRels(sp), showRels(spp))
	case "join":
		a, b := unhx(f[2]), unhx(f[3])
		p, ok1 := tryRel(a)
		q, ok2 := tryRel(b)
		if !ok1 || !ok2 {
			return "panic"
		}
		j := p.Join(q)
		want, okw := tryRel(p.String() + "/" + q.String())
		if !okw || want != j {
			c.PropFail("join", fmt.Sprintf("Join != clean(concat): got %s want %s", showRel(j), showRel(want)), op)
		}
		c.Distinct("join:" + showRel(p) + "+" + showRel(q))
		if strings.HasPrefix(gopath.Clean(b), ".") {
			c.H("join:reclean")
		} else {
			c.H("join:fast")
		}
		return showRel(j)
	case "joinraw":
		a, b := unhx(f[2]), unhx(f[3])
		p, ok1 := tryRel(a)
		if !ok1 {
			return "panic"
		}
		raw := mkRawRel(b)
		j := p.Join(raw)
		if want, okw := tryRel(p.String() + "/" + b); okw && b != "" && !strings.Contains(b, "/") && b != "." && b != ".." {
			if want != j {
				c.PropFail("joinraw", "Join(RelPath{name,-1}) != MustRelPath(p/name)", op)
			}
			if j.Dir() != p || j.Last() != b {
				c.PropFail("dirlast", "Dir/Last do not invert Join of a single segment", op)
			}
		}
		c.H("joinraw")
		return showRel(j)
	case "abs":
		s := unhx(f[2])
		p, err := fs.ParseAbsolutePath(s)
		cl := gopath.Clean(s)
		if err != nil {
			if strings.HasPrefix(cl, "/") {
				c.PropFail("parseabs", "absolute string refused", op)
			}
			c.H("abs:err")
			return "err"
		}
		if p.String() != cl {
			c.PropFail("absstring", "String() != cleaned", op)
		}
		if q, err2 := fs.ParseAbsolutePath(p.String()); err2 != nil || q != p {
			c.PropFail("canonical", "ParseAbsolutePath(p.String()) != p", op)
		}
		if cl != "/" && p.Dir().Join(fs.MustRelPath(p.Last())) != p {
			c.PropFail("dirlast", "abs Dir().Join(Last()) != p", op)
		}
		rel := "panic"
		func() {
			defer func() { recover() }()
			rel = showRel(p.CoerceRelative())
			// one cleaned path, one value: the coerced path is the parsed one (`==`, as map keys and the walk-to-root loops
			// compare them), and taking the parent commutes with coercing
			if r := p.CoerceRelative(); r != fs.MustRelPath("."+p.String()) {
				c.PropFail("canonical", fmt.Sprintf("CoerceRelative() of %q prints %q but is not the value MustRelPath gives for that string", p.String(), r.String()), op)
			}
			if p.Dir().CoerceRelative() != p.CoerceRelative().Dir() {
				c.PropFail("canonical", fmt.Sprintf("Dir().CoerceRelative() and CoerceRelative().Dir() of %q are different values", p.String()), op)
			}
		}()
		c.H("abs:ok")
		c.Distinct("abs:" + cl)
		return fmt.Sprintf("p=%s str=%s dir=%s last=%s rel=%s", showAbs(p), hx(p.String()), showAbs(p.Dir()), hx(p.Last()), rel)
	case "absjoin":
		a, b := unhx(f[2]), unhx(f[3])
		p, err := fs.ParseAbsolutePath(a)
		if err != nil {
			return "err"
		}
		q, ok := tryRel(b)
		if !ok {
			return "panic"
		}
		j := p.Join(q)
		if want, err := fs.ParseAbsolutePath(p.String() + "/" + q.String()); err != nil || want != j {
			c.PropFail("absjoin", "abs Join != clean(concat)", op)
		}
		c.H("absjoin")
		c.Distinct("absjoin:" + showAbs(p) + "+" + showRel(q))
		return showAbs(j)
	}
	return "bad-op"
}

// mkRawRel builds RelPath{name, -1} as fs.Walk does (unexported fields: via MustRelPath when valid).
func mkRawRel(name string) fs.RelPath {
	// For a single clean segment MustRelPath yields exactly {name,-1}; for other inputs we
	// construct through reflection-free means: the only in-repo constructor is the struct literal
	// inside package fs, so restrict to what Walk can produce (one directory entry name).
	p, ok := tryRel(name)
	if !ok {
		return fs.RelPath{}
	}
	return p
}

func allStrings(alpha string, maxLen int, f func(string)) {
	var rec func(prefix []byte, l int)
	rec = func(prefix []byte, l int) {
		f(string(prefix))
		if l == maxLen {
			return
		}
		for i := 0; i < len(alpha); i++ {
			rec(append(prefix, alpha[i]), l+1)
		}
	}
	rec(nil, 0)
}

func (c *Ctx) randPathString() string {
	n := 1 + c.Intn(24)
	b := make([]byte, n)
	for i := range b {
		switch c.Intn(10) {
		case 0, 1, 2:
			b[i] = '/'
		case 3, 4, 5:
			b[i] = '.'
		case 6:
			b[i] = byte(c.Intn(256))
		default:
			b[i] = "abAB-_ ~\n"[c.Intn(9)]
		}
	}
	return string(b)
}

func pathEngine(c *Ctx) {
	if ls := replayLines(); ls != nil {
		for _, op := range ls {
			if strings.HasPrefix(op, "path ") {
				c.Emit(op, pathExec(c, op))
			}
		}
		return
	}
	relLen, pairLen, nRand := 7, 3, 3000
	if c.Tier == "thorough" {
		relLen, pairLen, nRand = 9, 4, 200000
	}
	alpha := "ab./"
	// permanent corpus: the shapes that broke (or could break) GoesUp / String / Join
	for _, s := range []string{"..foo", "..", "../", "../a", "...", ".../a", "a/..", "a/../..", "a/../../b", "./..a", "..a/b", ".a", "a/.b", "a/..b/c", "", ".", "/", "//", "/..", "/../a", "a//b", "a/./b/", "..//..", "../..foo"} {
		op := "path rel " + hx(s)
		c.Emit(op, pathExec(c, op))
		op = "path abs " + hx(s)
		c.Emit(op, pathExec(c, op))
		op = "path clean " + hx(s)
		c.Emit(op, pathExec(c, op))
	}
	allStrings(alpha, relLen, func(s string) {
		op := "path rel " + hx(s)
		c.Emit(op, pathExec(c, op))
	})
	allStrings(alpha, relLen-1, func(s string) {
		op := "path abs " + hx("/"+s)
		c.Emit(op, pathExec(c, op))
		op = "path clean " + hx(s)
		c.Emit(op, pathExec(c, op))
	})
	var short []string
	allStrings(alpha, pairLen, func(s string) { short = append(short, s) })
	for _, a := range short {
		for _, b := range short {
			op := "path join " + hx(a) + " " + hx(b)
			c.Emit(op, pathExec(c, op))
			op = "path absjoin " + hx("/"+a) + " " + hx(b)
			c.Emit(op, pathExec(c, op))
		}
	}
	for i := 0; i < nRand; i++ {
		s, t := c.randPathString(), c.randPathString()
		for _, op := range []string{"path rel " + hx(s), "path clean " + hx(s), "path abs " + hx("/"+s), "path join " + hx(s) + " " + hx(t), "path absjoin " + hx("/"+s) + " " + hx(t)} {
			c.Emit(op, pathExec(c, op))
		}
		// single-segment names as fs.Walk joins them
		seg := strings.ReplaceAll(t, "/", "_")
		if seg != "." && seg != ".." {
			op := "path joinraw " + hx(s) + " " + hx(seg)
			c.Emit(op, pathExec(c, op))
		}
	}
	c.Extra["exhaustive_rel_len"] = relLen
	c.Extra["exhaustive_pair_len"] = pairLen
	c.Extra["alphabet"] = alpha
}
