package main

import (
	"bytes"
	"context"
	"encoding/hex"
	"fmt"
	"net"
	"os"
	"os/exec"
	"path/filepath"
	"sort"
	"strings"
	"sync"
	"syscall"
	"time"

	api "github.com/polydawn/go-timeless-api"
	"github.com/polydawn/go-timeless-api/rio"
	gittrans "github.com/polydawn/rio/transmat/git"
)

func init() { engines["git"] = gitEngine }

func gitCmd(dir string, args ...string) (string, error) {
	cmd := exec.Command("git", args...)
	cmd.Dir = dir
	cmd.Env = append(os.Environ(), "GIT_AUTHOR_NAME=v", "GIT_AUTHOR_EMAIL=v@v", "GIT_COMMITTER_NAME=v", "GIT_COMMITTER_EMAIL=v@v",
		"GIT_AUTHOR_DATE=2001-01-01T00:00:00Z", "GIT_COMMITTER_DATE=2001-01-01T00:00:00Z", "GIT_CONFIG_NOSYSTEM=1", "HOME="+dir)
	out, err := cmd.CombinedOutput()
	return string(out), err
}

// gitTreeEntries lists the commit's tree with the system git: (path, mode letter, blob bytes)
func gitTreeEntries(repo, commit string) ([][3]string, error) {
	out, err := gitCmd(repo, "ls-tree", "-r", "-t", "-z", commit)
	if err != nil {
		return nil, fmt.Errorf("%s", out)
	}
	var es [][3]string
	for _, rec := range strings.Split(out, "\x00") {
		if rec == "" {
			continue
		}
		tab := strings.IndexByte(rec, '\t')
		meta := strings.Fields(rec[:tab])
		path := rec[tab+1:]
		mode := "?"
		blob := ""
		switch meta[0] {
		case "040000":
			mode = "d"
		case "100644":
			mode = "f"
		case "100755":
			mode = "x"
		case "120000":
			mode = "L"
		case "160000":
			mode = "s"
		}
		if mode == "f" || mode == "x" || mode == "L" {
			cmd := exec.Command("git", "cat-file", "blob", meta[2])
			cmd.Dir = repo
			b, e := cmd.Output()
			if e != nil {
				return nil, e
			}
			blob = string(b)
		}
		es = append(es, [3]string{path, mode, blob})
	}
	return es, nil
}

var gitCase int

// gitExec: recipe "git <seed> <later: none|commit|branch|dirty|detach> <filter>" — the repository is regenerated from the seed
func gitExec(c *Ctx, op string) {
	f := strings.Fields(op)
	var seed uint64
	fmt.Sscan(f[1], &seed)
	later, fstr := f[2], f[3]
	g := &Ctx{rng: seed*0x9e3779b97f4a7c15 + 7, Hist: map[string]int{}, seen: map[string]struct{}{}}
	gitCase++
	base := filepath.Join(c.Work, fmt.Sprintf("gi%d", gitCase))
	defer rmrf(base)
	repo := filepath.Join(base, "repo")
	os.MkdirAll(repo, 0755)
	os.Setenv("RIO_CACHE", filepath.Join(base, "cache"))
	os.Setenv("RIO_BASE", filepath.Join(base, "riobase"))
	if out, err := gitCmd(repo, "init", "-q", "."); err != nil {
		c.EmitR(op, "skip", "skip")
		c.H("git-init-failed:" + out)
		return
	}
	gitCmd(repo, "config", "core.quotepath", "off")
	names := []string{"a", "b c", "d/e", "d/f g", "deep/er/est/x", ".hidden", "UPPER", "é", "bin/tool", "lib/a/empty", "lib/b/empty", "dup1", "dup2", "vendor/x/mod.txt", "vendor/y/mod.txt", "mirror.git", "vendor/lib.git", "x.git/inner", ".gitignore", "sub/.gitkeep", "notgit.gitx"}
	var commits []string
	nCommits := 2 + int(g.Rand()%3)
	for ci := 0; ci < nCommits; ci++ {
		for i := 0; i < 4+int(g.Rand()%6); i++ {
			n := names[int(g.Rand()%uint64(len(names)))]
			p := filepath.Join(repo, n)
			os.MkdirAll(filepath.Dir(p), 0755)
			os.Remove(p)
			switch g.Rand() % 7 {
			case 0:
				os.Symlink([]string{"a", "../x", "/etc/passwd", "d/e", "trailing space ", " leading", "\ttab", "nl\n", "d/f g", "é", strings.Repeat("long/", 60)}[g.Rand()%11], p)
			case 1:
				os.WriteFile(p, nil, 0644) // empty (shares the empty blob with other empties)
			case 2:
				os.WriteFile(p, []byte("same content\n"), 0644) // identical blobs under different names
			case 3:
				b := make([]byte, 100+g.Rand()%400)
				for j := range b {
					b[j] = byte(g.Rand())
				}
				os.WriteFile(p, b, 0644)
			case 4:
				os.WriteFile(p, []byte(fmt.Sprintf("#!/bin/sh\necho %d\n", g.Rand()%5)), 0755)
			default:
				os.WriteFile(p, []byte(fmt.Sprintf("text %d %s\n", ci, n)), 0644)
			}
		}
		if ci == 0 {
			os.Remove(filepath.Join(repo, "ws-link"))
			os.Symlink([]string{"docs ", "\tindented", "target\n", " x "}[g.Rand()%4], filepath.Join(repo, "ws-link"))
		}
		gitCmd(repo, "add", "-A")
		gitCmd(repo, "commit", "-q", "--allow-empty", "-m", fmt.Sprintf("c%d", ci))
		h, _ := gitCmd(repo, "rev-parse", "HEAD")
		commits = append(commits, strings.TrimSpace(h))
	}
	target := commits[int(g.Rand()%uint64(len(commits)))]
	// later repository states must not matter
	switch later {
	case "commit":
		os.WriteFile(filepath.Join(repo, "later"), []byte("later"), 0644)
		gitCmd(repo, "add", "-A")
		gitCmd(repo, "commit", "-q", "-m", "later")
	case "branch":
		gitCmd(repo, "checkout", "-q", "-b", "other", commits[0])
		os.WriteFile(filepath.Join(repo, "onbranch"), []byte("x"), 0644)
		gitCmd(repo, "add", "-A")
		gitCmd(repo, "commit", "-q", "-m", "branch")
	case "dirty":
		os.WriteFile(filepath.Join(repo, "a"), []byte("dirty"), 0644)
		os.WriteFile(filepath.Join(repo, "untracked"), []byte("u"), 0644)
		gitCmd(repo, "add", "untracked")
	case "norefs": // no branch, no tag: HEAD detached and every ref deleted; the object store holds every commit as before
		gitCmd(repo, "checkout", "-q", "--detach", commits[0])
		if out, e := gitCmd(repo, "for-each-ref", "--format=%(refname)"); e == nil {
			for _, r := range strings.Fields(out) {
				gitCmd(repo, "update-ref", "-d", r)
			}
		}
	case "detach":
		gitCmd(repo, "checkout", "-q", "--detach", commits[0])
	}
	es, err := gitTreeEntries(repo, target)
	if err != nil {
		c.EmitR(op, "skip", "skip")
		return
	}
	uf := api.MustParseFilesetUnpackFilter(fstr)
	dst := filepath.Join(base, "dst")
	wh := []api.WarehouseLocation{api.WarehouseLocation("file://" + repo + "/.git")}
	if seed%2 == 1 { // the address of a non-bare repository is its working tree (what `git clone <path>` takes)
		wh = []api.WarehouseLocation{api.WarehouseLocation("file://" + repo)}
	}
	c.H(fmt.Sprintf("git-addr-worktree:%v", seed%2 == 1))
	id := api.WareID{Type: "git", Hash: target}
	// ---- a cancellation in the middle of the tree walk: the unpack either fails or delivers the whole tree, and whatever
	// it leaves in the fileset cache, a later unpack of the same commit (never cancelled) shows the whole tree
	if len(es) > 2 {
		os.Setenv("RIO_CACHE", filepath.Join(base, "cache-cancel"))
		cc := &countdownCtx{Context: context.Background(), left: 2 + int(g.Rand()%uint64(2*len(es)+4)), done: make(chan struct{})}
		whole := func(dir string) string {
			sn, _ := Snapshot(dir)
			have := map[string]bool{}
			for _, e := range sn {
				have[e.Name] = true
			}
			for _, e := range es {
				if !have[e[0]] {
					return e[0]
				}
			}
			return ""
		}
		_, cerr, cpan := safeCall(func() (api.WareID, error) {
			return gittrans.Unpack(cc, id, filepath.Join(base, "dst-c1"), uf, rio.Placement_Copy, wh, rio.Monitor{})
		})
		if cpan != "" {
			c.PropFail("git-panic", "cancelled unpack: "+cpan, op)
		} else if cerr == nil {
			if m := whole(filepath.Join(base, "dst-c1")); m != "" {
				c.PropFail("git-cancel-truncated", fmt.Sprintf("an unpack cancelled during the tree walk reported success but %q of the commit's tree is missing", m), op)
			}
		}
		_, c2err, c2pan := safeCall(func() (api.WareID, error) {
			return gittrans.Unpack(context.Background(), id, filepath.Join(base, "dst-c2"), uf, rio.Placement_Copy, wh, rio.Monitor{})
		})
		if c2pan == "" && c2err == nil {
			if m := whole(filepath.Join(base, "dst-c2")); m != "" {
				c.PropFail("git-cancel-truncated", fmt.Sprintf("after an earlier cancelled unpack of the same commit, an uncancelled unpack through the cache lacks %q", m), op)
			}
		}
		c.H(fmt.Sprintf("git-cancel:%v", cerr == nil))
		os.Setenv("RIO_CACHE", filepath.Join(base, "cache"))
	}
	_, uerr, upan := safeCall(func() (api.WareID, error) {
		return gittrans.Unpack(context.Background(), id, dst, uf, rio.Placement_Direct, wh, rio.Monitor{})
	})
	var toks []string
	for _, e := range es {
		toks = append(toks, hx(e[0])+":"+e[1]+":"+hx(e[2]))
	}
	et := "-"
	if len(toks) > 0 {
		et = strings.Join(toks, ";")
	}
	modelOp := fmt.Sprintf("git %s %d %d %s", filterInts(uf), os.Getuid(), os.Getgid(), et)
	res := ""
	switch {
	case upan != "":
		res = "panic"
		c.PropFail("git-panic", upan, op)
	case uerr != nil && strings.Contains(fstr, "mtime=now") && catOf(uerr) == "rio-usage-error":
		// the one filter setting that cannot be applied: refused, as tar and zip refuse it
		res = "err " + catOf(uerr)
		c.H("git-mtime-now-refused")
		c.EmitR(op, modelOp, res)
		return
	case uerr != nil:
		res = "err " + catOf(uerr)
		cl := "git-unpack-failed"
		if later == "detach" || later == "norefs" {
			cl = "git-detached-head"
		}
		c.PropFail(cl, "unpack of an existing commit failed: "+catOf(uerr)+": "+uerr.Error(), op)
		c.EmitR(op, "skip", "skip")
		return
	default:
		if strings.Contains(fstr, "mtime=now") {
			c.PropFail("git-filter-ignored", "an unpack under the filter mtime=now — which tar and zip refuse as a usage error — answered success; the entries carry the default time", op)
		}
		sn, _ := Snapshot(dst)
		var lines []string
		for _, e := range sn {
			lines = append(lines, fmt.Sprintf("%s|%c|%d|%d|%d|%d|%s", hx(e.Name), e.Kind, permsOf(e), e.Uid, e.Gid, e.Sec, hx(e.Link)))
		}
		sort.Strings(lines)
		res = strings.Join(lines, ",")
		// a filter's mtime rule names every entry: directories too (the conjured root, trees, gitlink directories)
		if k := strings.Index(fstr, "mtime=@"); k >= 0 {
			var t int64
			fmt.Sscan(strings.SplitN(fstr[k+7:], ",", 2)[0], &t)
			for _, e := range sn {
				if e.Sec != t {
					c.PropFail("git-filter-ignored", fmt.Sprintf("unpacked with %s, the entry %q (%c) carries mtime %d", fstr, e.Name, e.Kind, e.Sec), op)
					break
				}
			}
			c.H("git-mtime-filter-checked")
		}
		// ---- normalised ownership and mtimes are a function of the commit and the filter alone: after another unpack
		// (of any commit) with explicit owners in this same process, the same unpack gives the same listing
		{
			alt := api.MustParseFilesetUnpackFilter("uid=4242,gid=4343,mtime=@77,sticky=follow,setid=follow,dev=follow")
			safeCall(func() (api.WareID, error) {
				return gittrans.Unpack(context.Background(), api.WareID{Type: "git", Hash: commits[0]}, filepath.Join(base, "dst-h0"), alt, rio.Placement_Direct, wh, rio.Monitor{})
			})
			_, herr, hpan := safeCall(func() (api.WareID, error) {
				return gittrans.Unpack(context.Background(), id, filepath.Join(base, "dst-h1"), uf, rio.Placement_Direct, wh, rio.Monitor{})
			})
			if herr == nil && hpan == "" {
				sn2, _ := Snapshot(filepath.Join(base, "dst-h1"))
				var l2 []string
				for _, e := range sn2 {
					l2 = append(l2, fmt.Sprintf("%s|%c|%d|%d|%d|%d|%s", hx(e.Name), e.Kind, permsOf(e), e.Uid, e.Gid, e.Sec, hx(e.Link)))
				}
				sort.Strings(l2)
				if strings.Join(l2, ",") != res {
					d := ""
					for i := range l2 {
						if i >= len(lines) || l2[i] != lines[i] {
							d = l2[i]
							break
						}
					}
					c.PropFail("git-owner-history", "the same unpack (commit, filter) gives another listing after an unpack with explicit owners ran earlier in this process; first difference: "+d, op)
				}
			}
		}
		// ---- the id is a hex number: spelled in upper or mixed case it names the same commit, and the same tree comes out
		if up := strings.ToUpper(target); up != target {
			mixed := []byte(target)
			for i := range mixed {
				if i%2 == 0 && mixed[i] >= 'a' && mixed[i] <= 'f' {
					mixed[i] -= 32
				}
			}
			for k, spell := range []string{up, string(mixed)} {
				d := filepath.Join(base, fmt.Sprintf("dst-case%d", k))
				_, cerr, cpan := safeCall(func() (api.WareID, error) {
					return gittrans.Unpack(context.Background(), api.WareID{Type: "git", Hash: spell}, d, uf, rio.Placement_Direct, wh, rio.Monitor{})
				})
				switch {
				case cpan != "":
					c.PropFail("git-panic", "commit id spelled "+spell+": "+cpan, op)
				case cerr != nil:
					c.PropFail("git-unpack-failed", "the commit id spelled in another letter case ("+spell+") is refused: "+catOf(cerr)+": "+cerr.Error(), op)
				default:
					sn2, _ := Snapshot(d)
					var l2 []string
					for _, e := range sn2 {
						l2 = append(l2, fmt.Sprintf("%s|%c|%d|%d|%d|%d|%s", hx(e.Name), e.Kind, permsOf(e), e.Uid, e.Gid, e.Sec, hx(e.Link)))
					}
					sort.Strings(l2)
					if strings.Join(l2, ",") != res {
						c.PropFail("git-content", "the commit id spelled "+spell+" unpacks to another tree than the lower-case spelling", op)
					}
				}
				rmrf(d)
			}
			c.H("git-idcase")
		}
		// ---- C19 oracle, from git's own view of the tree (independent of the model)
		want := map[string][3]string{}
		for _, e := range es {
			want[e[0]] = e
		}
		for _, e := range sn {
			if e.Name == "" {
				continue
			}
			if e.Name == ".git" || strings.HasPrefix(e.Name, ".git/") {
				c.PropFail("git-extra", "the unpacked tree contains .git", op)
				continue
			}
			w, ok := want[e.Name]
			if !ok {
				c.PropFail("git-extra", "unpacked path not in the commit's tree: "+e.Name, op)
				continue
			}
			delete(want, e.Name)
			switch w[1] {
			case "f", "x":
				if e.Kind != 'f' || !bytes.Equal(e.Content, []byte(w[2])) {
					c.PropFail("git-content", "file bytes differ for "+e.Name, op)
				}
				if (w[1] == "x") != (e.Perms&0111 != 0) {
					c.PropFail("git-mode", "executable bit wrong for "+e.Name, op)
				}
			case "L":
				if e.Kind != 'L' || e.Link != w[2] {
					c.PropFail("git-content", "symlink target differs for "+e.Name, op)
				}
			case "d":
				if e.Kind != 'd' {
					c.PropFail("git-mode", "directory expected at "+e.Name, op)
				}
			}
		}
		for k := range want {
			c.PropFail("git-missing", "path of the commit's tree missing after unpack: "+k, op)
		}
	}
	c.EmitR(op, modelOp, res)
	// a commit the repository lacks: ware-not-found, nothing cached
	missing := api.WareID{Type: "git", Hash: "0123456789abcdef0123456789abcdef01234567"}
	_, merr, mpan := safeCall(func() (api.WareID, error) {
		return gittrans.Unpack(context.Background(), missing, filepath.Join(base, "dst2"), uf, rio.Placement_Copy, wh, rio.Monitor{})
	})
	if mpan != "" {
		c.PropFail("git-panic", "missing commit: "+mpan, op)
	} else if merr == nil || catOf(merr) != "rio-ware-not-found" {
		c.PropFail("git-missing-commit", fmt.Sprintf("a commit the repository lacks gave %v instead of rio-ware-not-found", merr), op)
	}
	if _, e := os.Lstat(filepath.Join(base, "cache", "git", "fileset", "012", "345", missing.Hash)); e == nil {
		c.PropFail("git-missing-commit", "a shelf was created for a commit the repository lacks", op)
	}
	// C10 for git wares: an earlier unpack of the same commit through the cache with an altering filter must not change
	// what a later lossless unpack shows
	if later != "detach" && later != "norefs" && uerr == nil && upan == "" {
		auf := api.MustParseFilesetUnpackFilter("uid=7,gid=8,mtime=follow,sticky=follow,setid=follow,dev=follow")
		luf := api.MustParseFilesetUnpackFilter(losslessUnpackStr)
		safeCall(func() (api.WareID, error) {
			return gittrans.Unpack(context.Background(), id, filepath.Join(base, "dstA"), auf, rio.Placement_Copy, wh, rio.Monitor{})
		})
		dB := filepath.Join(base, "dstB")
		_, berr, bpan := safeCall(func() (api.WareID, error) {
			return gittrans.Unpack(context.Background(), id, dB, luf, rio.Placement_Copy, wh, rio.Monitor{})
		})
		c.H("git-alt-history")
		if berr == nil && bpan == "" {
			if sn, e := Snapshot(dB); e == nil {
				for _, e := range sn {
					if e.Name == "" {
						continue // (the conjured root has the default directory's owner, not the entries')
					}
					if e.Uid != 1000 || e.Gid != 1000 {
						c.PropFail("git-cache-poisoned-by-filter", fmt.Sprintf("after an earlier unpack of the same commit with uid=7,gid=8 through the cache, a lossless unpack shows %q owned by %d:%d instead of 1000:1000", e.Name, e.Uid, e.Gid), op)
						break
					}
				}
			}
		}
	}
	// every commit at all later repository states, from the same process and the same warehouse address: the repository
	// gains a commit after the unpacks above; that commit must unpack too
	if later != "detach" && later != "norefs" {
		os.WriteFile(filepath.Join(repo, "added-later.txt"), []byte("later "+target), 0644)
		gitCmd(repo, "add", "added-later.txt")
		gitCmd(repo, "commit", "-q", "-m", "later")
		if nh, e := gitCmd(repo, "rev-parse", "HEAD"); e == nil && len(strings.TrimSpace(nh)) == 40 {
			nid := api.WareID{Type: "git", Hash: strings.TrimSpace(nh)}
			d5 := filepath.Join(base, "dst5")
			_, lerr, lpan := safeCall(func() (api.WareID, error) {
				return gittrans.Unpack(context.Background(), nid, d5, uf, rio.Placement_Direct, wh, rio.Monitor{})
			})
			c.H("later-commit")
			if lpan != "" {
				c.PropFail("git-panic", "commit added after an earlier unpack: "+lpan, op)
			} else if lerr != nil {
				c.PropFail("git-later-commit", "a commit added to the repository after an earlier unpack from the same address cannot be unpacked: "+lerr.Error(), op)
			} else if b, e := os.ReadFile(filepath.Join(d5, "added-later.txt")); e != nil || string(b) != "later "+target {
				c.PropFail("git-later-commit", "the unpack of a commit added later does not show that commit's tree", op)
			}
		}
	}
	// C20: a local warehouse that is itself a clone (has an origin) and lacks the requested commit must not be touched
	// (no fetch into it): snapshot before / after
	if later != "detach" && later != "norefs" {
		clone := filepath.Join(base, "clone")
		if _, e := gitCmd(base, "clone", "-q", repo, clone); e == nil {
			os.WriteFile(filepath.Join(repo, "upstream-only.txt"), []byte("u"), 0644)
			gitCmd(repo, "add", "upstream-only.txt")
			gitCmd(repo, "commit", "-q", "-m", "upstream only")
			if uh, e := gitCmd(repo, "rev-parse", "HEAD"); e == nil && len(strings.TrimSpace(uh)) == 40 {
				before, _ := Snapshot(clone)
				uid := api.WareID{Type: "git", Hash: strings.TrimSpace(uh)}
				cwh := []api.WarehouseLocation{api.WarehouseLocation("file://" + clone + "/.git")}
				_, cerr, cpan := safeCall(func() (api.WareID, error) {
					return gittrans.Unpack(context.Background(), uid, filepath.Join(base, "dst6"), uf, rio.Placement_Direct, cwh, rio.Monitor{})
				})
				after, _ := Snapshot(clone)
				c.H("clone-lacking")
				if cpan != "" {
					c.PropFail("git-panic", "commit absent from a cloned warehouse: "+cpan, op)
				} else if cerr == nil || catOf(cerr) != "rio-ware-not-found" {
					c.PropFail("git-missing-commit", fmt.Sprintf("a commit the (cloned) repository lacks gave %v instead of rio-ware-not-found", cerr), op)
				}
				if before.Digest(true) != after.Digest(true) {
					c.PropFail("warehouse-mutated", "unpack modified the git warehouse it read from: "+DiffFilesets(before, after, true), op)
				}
			}
		}
	}
	// ids that name objects of the repository which are not commits (root tree, a blob, an annotated tag): the
	// repository lacks such a *commit*: ware-not-found, no panic, nothing cached
	gitCmd(repo, "tag", "-a", "-m", "annotated", "vtag", target)
	for _, spec := range []string{target + "^{tree}", "vtag", target + ":" + firstBlobPath(repo, target)} {
		if strings.HasSuffix(spec, ":") {
			continue
		}
		oid, e := gitCmd(repo, "rev-parse", spec)
		oid = strings.TrimSpace(oid)
		if e != nil || len(oid) != 40 || oid == target {
			continue
		}
		nid := api.WareID{Type: "git", Hash: oid}
		_, nerr, npan := safeCall(func() (api.WareID, error) {
			return gittrans.Unpack(context.Background(), nid, filepath.Join(base, "dst3"), uf, rio.Placement_Copy, wh, rio.Monitor{})
		})
		c.H("noncommit-id")
		if npan != "" {
			c.PropFail("git-panic", "id of a non-commit object ("+spec+"): "+npan, op)
		} else if nerr == nil || catOf(nerr) != "rio-ware-not-found" {
			c.PropFail("git-missing-commit", fmt.Sprintf("the id of a non-commit object (%s) gave %v instead of rio-ware-not-found", spec, nerr), op)
		}
		if _, e := os.Lstat(filepath.Join(base, "cache", "git", "fileset", oid[0:3], oid[3:6], oid)); e == nil {
			c.PropFail("git-missing-commit", "a shelf was created for the id of a non-commit object", op)
		}
	}
	c.H("later:" + later)
	c.H("res:" + strings.Fields(res + " x")[0][:min(5, len(strings.Fields(res + " x")[0]))])
	c.Distinct(modelOp)
}

// firstBlobPath: some path of the commit's tree that is a blob ("" if none)
// countdownCtx is cancelled at its n-th Err() poll (rio's walkers poll ctx.Err() per entry)
type countdownCtx struct {
	context.Context
	mu   sync.Mutex
	left int
	done chan struct{}
}

func (c *countdownCtx) Err() error {
	c.mu.Lock()
	defer c.mu.Unlock()
	if c.left > 0 {
		c.left--
		if c.left == 0 {
			close(c.done)
		}
	}
	if c.left == 0 {
		return context.Canceled
	}
	return nil
}
func (c *countdownCtx) Done() <-chan struct{} { return c.done }

func firstBlobPath(repo, commit string) string {
	out, err := gitCmd(repo, "ls-tree", "-r", "--name-only", "-z", commit)
	if err != nil {
		return ""
	}
	for _, p := range strings.Split(out, "\x00") {
		if p != "" && !strings.ContainsAny(p, "\n\"\\") {
			return p
		}
	}
	return ""
}

func permsOf(e Entry) int {
	if e.Kind == 'L' {
		return 0644 // symlink permission bits are not settable; the model carries git's nominal 0644
	}
	return int(e.Perms)
}

// gitNetExec: recipe "gitnet <seed>" — the repository is reached over the git:// transport (rio clones it into its
// object cache): a commit reachable only through a tag, one only through a non-default branch, and the default branch's
// head must all unpack to their trees.
func gitNetExec(c *Ctx, op string) {
	c.Begin(op)
	gitCase++
	base := filepath.Join(c.Work, fmt.Sprintf("gn%d", gitCase))
	defer rmrf(base)
	repo := filepath.Join(base, "netrepo")
	os.MkdirAll(repo, 0755)
	os.Setenv("RIO_CACHE", filepath.Join(base, "cache"))
	os.Setenv("RIO_BASE", filepath.Join(base, "riobase"))
	if _, err := gitCmd(repo, "init", "-q", "."); err != nil {
		c.EmitR(op, "skip", "skip")
		return
	}
	commit := func(name, body string) string {
		os.WriteFile(filepath.Join(repo, name), []byte(body), 0644)
		gitCmd(repo, "add", "-A")
		gitCmd(repo, "commit", "-q", "-m", name)
		h, _ := gitCmd(repo, "rev-parse", "HEAD")
		return strings.TrimSpace(h)
	}
	c0 := commit("base.txt", "base")
	def, _ := gitCmd(repo, "rev-parse", "--abbrev-ref", "HEAD")
	def = strings.TrimSpace(def)
	gitCmd(repo, "checkout", "-q", "-b", "release")
	cTag := commit("tagged.txt", "only a tag keeps this commit")
	gitCmd(repo, "tag", "v1.0")
	gitCmd(repo, "checkout", "-q", def)
	gitCmd(repo, "branch", "-q", "-D", "release")
	gitCmd(repo, "checkout", "-q", "-b", "side")
	cSide := commit("side.txt", "on a side branch")
	gitCmd(repo, "checkout", "-q", def)
	cHead := commit("head.txt", "head of the default branch")
	// a second, unrelated repository served next to the first under a name that differs only in case
	repo2 := filepath.Join(base, "NetRepo")
	os.MkdirAll(repo2, 0755)
	gitCmd(repo2, "init", "-q", ".")
	os.WriteFile(filepath.Join(repo2, "other.txt"), []byte("another project"), 0644)
	gitCmd(repo2, "add", "-A")
	gitCmd(repo2, "commit", "-q", "-m", "other")
	cOtherRaw, _ := gitCmd(repo2, "rev-parse", "HEAD")
	cOther := strings.TrimSpace(cOtherRaw)
	l, err := net.Listen("tcp", "127.0.0.1:0")
	if err != nil {
		c.EmitR(op, "skip", "skip")
		return
	}
	port := l.Addr().(*net.TCPAddr).Port
	l.Close()
	daemon := exec.Command("git", "daemon", "--reuseaddr", "--listen=127.0.0.1", fmt.Sprintf("--port=%d", port), "--base-path="+base, "--export-all", base)
	daemon.SysProcAttr = &syscall.SysProcAttr{Setpgid: true}
	if daemon.Start() != nil {
		c.EmitR(op, "skip", "skip")
		return
	}
	defer func() {
		syscall.Kill(-daemon.Process.Pid, syscall.SIGKILL)
		daemon.Wait()
	}()
	up := false
	for i := 0; i < 100 && !up; i++ {
		if cn, e := net.DialTimeout("tcp", fmt.Sprintf("127.0.0.1:%d", port), 100*time.Millisecond); e == nil {
			cn.Close()
			up = true
		} else {
			time.Sleep(50 * time.Millisecond)
		}
	}
	if !up {
		c.H("gitnet:daemon-not-up")
		c.EmitR(op, "skip", "skip")
		return
	}
	wh := []api.WarehouseLocation{api.WarehouseLocation(fmt.Sprintf("git://127.0.0.1:%d/netrepo", port))}
	uf := api.MustParseFilesetUnpackFilter(losslessUnpackStr)
	for i, cs := range []struct{ commit, file, how string }{{cTag, "tagged.txt", "reachable only through a tag"}, {cSide, "side.txt", "on a non-default branch"}, {cHead, "head.txt", "the default branch's head"}, {c0, "base.txt", "an ancestor"}} {
		dst := filepath.Join(base, fmt.Sprintf("dst%d", i))
		_, e, pan := safeCall(func() (api.WareID, error) {
			return gittrans.Unpack(context.Background(), api.WareID{Type: "git", Hash: cs.commit}, dst, uf, rio.Placement_Direct, wh, rio.Monitor{})
		})
		switch {
		case pan != "":
			c.PropFail("git-panic", "unpack over git://: "+pan, op)
		case e != nil:
			c.PropFail("git-unpack-failed", fmt.Sprintf("a commit the remote repository has (%s) cannot be unpacked over git://: %v", cs.how, e), op)
		default:
			if _, se := os.Lstat(filepath.Join(dst, cs.file)); se != nil {
				c.PropFail("git-missing", fmt.Sprintf("unpack over git:// of the commit %s lacks %s", cs.how, cs.file), op)
			}
			if _, se := os.Lstat(filepath.Join(dst, ".git")); se == nil {
				c.PropFail("git-extra", "the unpacked tree contains .git", op)
			}
		}
	}
	// the served repository moves on while rio holds a cached clone of it: a new commit on a branch HEAD does not point
	// at (HEAD's own commit stays), then one on HEAD's branch; both are commits of the repository and must unpack
	{
		gitCmd(repo, "checkout", "-q", "-b", "feature")
		cFeat := commit("feature.txt", "arrived after the clone was cached")
		gitCmd(repo, "checkout", "-q", def)
		for i, cs := range []struct{ commit, file, how string }{{cFeat, "feature.txt", "added on another branch after the clone was cached"}, {"", "later.txt", "added on HEAD's branch after the clone was cached"}} {
			if cs.commit == "" {
				cs.commit = commit("later.txt", "later")
			}
			dst := filepath.Join(base, fmt.Sprintf("dst-later%d", i))
			_, e, pan := safeCall(func() (api.WareID, error) {
				return gittrans.Unpack(context.Background(), api.WareID{Type: "git", Hash: cs.commit}, dst, uf, rio.Placement_Direct, wh, rio.Monitor{})
			})
			if pan != "" {
				c.PropFail("git-panic", "unpack over git://: "+pan, op)
			} else if e != nil {
				c.PropFail("git-unpack-failed", fmt.Sprintf("a commit the remote repository has (%s) cannot be unpacked over git://: %v", cs.how, e), op)
			} else if _, se := os.Lstat(filepath.Join(dst, cs.file)); se != nil {
				c.PropFail("git-missing", fmt.Sprintf("unpack over git:// of the commit %s lacks %s", cs.how, cs.file), op)
			}
		}
		c.H("gitnet:moved-on")
	}
	// the neighbour repository, through the same cache: it has its own commit and lacks the first repository's
	if len(cOther) == 40 {
		wh2 := []api.WarehouseLocation{api.WarehouseLocation(fmt.Sprintf("git://127.0.0.1:%d/NetRepo", port))}
		dst := filepath.Join(base, "dst-foreign")
		_, e, pan := safeCall(func() (api.WareID, error) {
			return gittrans.Unpack(context.Background(), api.WareID{Type: "git", Hash: cHead}, dst, uf, rio.Placement_Direct, wh2, rio.Monitor{})
		})
		if pan != "" {
			c.PropFail("git-panic", "unpack over git://: "+pan, op)
		} else if e == nil {
			c.PropFail("git-extra", "a commit that only the repository /netrepo has was unpacked from the repository /NetRepo, which lacks it (served from the clone cache of the other address)", op)
		} else if catOf(e) != "rio-ware-not-found" {
			c.PropFail("git-wrong-error", "a commit the repository lacks is reported as "+catOf(e), op)
		}
		dst = filepath.Join(base, "dst-other")
		_, e, pan = safeCall(func() (api.WareID, error) {
			return gittrans.Unpack(context.Background(), api.WareID{Type: "git", Hash: cOther}, dst, uf, rio.Placement_Direct, wh2, rio.Monitor{})
		})
		if pan != "" {
			c.PropFail("git-panic", "unpack over git://: "+pan, op)
		} else if e != nil {
			c.PropFail("git-unpack-failed", fmt.Sprintf("the head commit of a second repository (address differing only in case from one unpacked earlier) cannot be unpacked: %v", e), op)
		} else if _, se := os.Lstat(filepath.Join(dst, "other.txt")); se != nil {
			c.PropFail("git-missing", "unpack over git:// of the second repository's head lacks other.txt", op)
		}
		c.H("gitnet:neighbour")
	}
	c.H("gitnet:done")
	c.EmitR(op, "skip", "skip")
}

func gitEngine(c *Ctx) {
	if ls := replayLines(); ls != nil {
		for _, op := range ls {
			if strings.HasPrefix(op, "git ") {
				gitExec(c, op)
			} else if strings.HasPrefix(op, "gitnet ") {
				gitNetExec(c, op)
			} else if strings.HasPrefix(op, "git-concurrent") {
				gitConcurrent(c, op)
			} else if strings.HasPrefix(op, "git-hostile") {
				gitHostile(c, strings.Fields(op)[0])
			} else if strings.HasPrefix(op, "git-warehouses") {
				gitWarehouses(c, op)
			}
		}
		return
	}
	n := 8
	if c.Tier == "thorough" {
		n = 120
	}
	gitNetExec(c, "gitnet 1")
	gitConcurrent(c, "git-concurrent")
	gitHostile(c, "git-hostile")
	gitWarehouses(c, "git-warehouses")
	laters := []string{"none", "commit", "branch", "dirty", "detach", "norefs"}
	filts := []string{losslessUnpackStr, losslessUnpackStr, "uid=mine,gid=mine,mtime=follow,sticky=follow,setid=follow,dev=follow", "uid=5,gid=6,mtime=@99,sticky=follow,setid=follow,dev=follow"}
	gitExec(c, fmt.Sprintf("git %d none uid=follow,gid=follow,mtime=now,sticky=follow,setid=follow,dev=follow", c.Rand()%100000))
	for k := 0; k < n; k++ {
		f := filts[c.Intn(len(filts))]
		switch k { // history of the process: explicit owners first, then follow filters (nothing may carry over)
		case 0:
			f = filts[3]
		case 1:
			f = losslessUnpackStr
		}
		gitExec(c, fmt.Sprintf("git %d %s %s", c.Rand()%100000, laters[k%len(laters)], f))
	}
}

// gitWarehouses: several repositories listed: a stale mirror (healthy, lacks the commit), a directory that is no
// repository, a missing one — ahead of the repository that holds the commit: the unpack yields the commit's tree.
// Recipe: "git-warehouses".
func gitWarehouses(c *Ctx, op string) {
	c.Begin(op)
	gitCase++
	base := filepath.Join(c.Work, fmt.Sprintf("gw%d", gitCase))
	defer rmrf(base)
	os.Setenv("RIO_CACHE", filepath.Join(base, "cache"))
	os.Setenv("RIO_BASE", filepath.Join(base, "riobase"))
	c.EmitR(op, "skip", "skip")
	mk := func(name, content string) (string, string) {
		repo := filepath.Join(base, name)
		os.MkdirAll(filepath.Join(repo, "d"), 0755)
		if _, err := gitCmd(repo, "init", "-q", "."); err != nil {
			return "", ""
		}
		os.WriteFile(filepath.Join(repo, "d", "f"), []byte(content), 0644)
		os.WriteFile(filepath.Join(repo, "tool"), []byte("#!/bin/sh\n"), 0755)
		// names are bytes: Latin-1 and other non-UTF-8 names are tracked and delivered as they are
		os.WriteFile(filepath.Join(repo, "caf\xe9.txt"), []byte("latin1"), 0644)
		os.WriteFile(filepath.Join(repo, "caf\xe8.txt"), []byte("latin1 too"), 0644)
		os.MkdirAll(filepath.Join(repo, "d\xefr"), 0755)
		os.WriteFile(filepath.Join(repo, "d\xefr", "in\xffer"), []byte("deep"), 0644)
		gitCmd(repo, "add", "-A")
		if _, err := gitCmd(repo, "commit", "-q", "-m", name); err != nil {
			return "", ""
		}
		out, _ := gitCmd(repo, "rev-parse", "HEAD")
		return repo, strings.TrimSpace(out)
	}
	stale, _ := mk("stale", "old content")
	fresh, commit := mk("fresh", "new content")
	if stale == "" || fresh == "" || commit == "" {
		c.H("git-warehouses:unavailable")
		return
	}
	os.MkdirAll(filepath.Join(base, "plaindir"), 0755)
	os.MkdirAll(filepath.Join(base, "objdir", "objects"), 0755) // a directory that merely holds an `objects` (a build tree)
	// working trees whose `.git` is a file: a linked working tree, and a clone with a separate git directory
	linked, sepwt := filepath.Join(base, "linked-wt"), filepath.Join(base, "sep-wt")
	gitCmd(fresh, "worktree", "add", "-q", "--detach", linked, commit)
	gitCmd(base, "clone", "-q", "--separate-git-dir", filepath.Join(base, "sep.git"), fresh, sepwt)
	uf := api.MustParseFilesetUnpackFilter(losslessUnpackStr)
	addr := func(p string) api.WarehouseLocation { return api.WarehouseLocation("file://" + p) }
	for k, l := range [][]api.WarehouseLocation{
		{addr(stale), addr(fresh)},
		{addr(filepath.Join(stale, ".git")), addr(filepath.Join(fresh, ".git"))},
		{addr(filepath.Join(base, "missing")), addr(stale), addr(fresh)},
		{addr(filepath.Join(base, "plaindir")), addr(fresh)},
		{addr(filepath.Join(base, "objdir")), addr(fresh)},
		{addr(linked)},
		{addr(sepwt)},
		{addr(stale), addr(linked)},
		{addr(fresh), addr(stale)},
	} {
		for _, pm := range []rio.PlacementMode{rio.Placement_Direct, rio.Placement_Copy} {
			os.Setenv("RIO_CACHE", filepath.Join(base, fmt.Sprintf("cache%d%s", k, pm)))
			dst := filepath.Join(base, fmt.Sprintf("dst%d%s", k, pm))
			_, uerr, upan := safeCall(func() (api.WareID, error) {
				return gittrans.Unpack(context.Background(), api.WareID{Type: "git", Hash: commit}, dst, uf, pm, l, rio.Monitor{})
			})
			c.H(fmt.Sprintf("git-warehouses:%d:%s", k, strings.Fields(resTok(api.WareID{}, uerr, upan))[0]))
			switch {
			case upan != "":
				c.PropFail("git-panic", fmt.Sprintf("unpack with the warehouse list %v panicked: %s", l, upan), op)
			case uerr != nil:
				c.PropFail("git-unpack-failed", fmt.Sprintf("the commit is held by a repository of the list %v (a healthy repository without it, or a non-repository, is listed ahead); the unpack (%s) answers %s: %v", l, pm, catOf(uerr), uerr), op)
			default:
				if b, e := os.ReadFile(filepath.Join(dst, "d", "f")); e != nil || string(b) != "new content" {
					c.PropFail("git-content", fmt.Sprintf("unpack with the warehouse list %v delivered d/f = %q", l, b), op)
				}
				for n, want := range map[string]string{"caf\xe9.txt": "latin1", "caf\xe8.txt": "latin1 too", "d\xefr/in\xffer": "deep"} {
					if b, e := os.ReadFile(filepath.Join(dst, n)); e != nil || string(b) != want {
						c.PropFail("git-missing", fmt.Sprintf("the tracked path %q (a name that is not valid UTF-8) is not delivered as tracked: %v", n, e), op)
					}
				}
				if ents, e := os.ReadDir(dst); e == nil && len(ents) != 5 {
					c.PropFail("git-extra", fmt.Sprintf("the commit tracks 5 top-level entries, the unpack delivered %d", len(ents)), op)
				}
			}
		}
	}
}

// gitConcurrent: two commits with many directories each, unpacked at the same time in one process (as a stitch of two git
// inputs does): each destination equals what the same commit gives when unpacked alone. Recipe: "git-concurrent".
func gitConcurrent(c *Ctx, op string) {
	c.Begin(op)
	gitCase++
	base := filepath.Join(c.Work, fmt.Sprintf("gc%d", gitCase))
	defer rmrf(base)
	repo := filepath.Join(base, "repo")
	os.MkdirAll(repo, 0755)
	os.Setenv("RIO_CACHE", filepath.Join(base, "cache"))
	os.Setenv("RIO_BASE", filepath.Join(base, "riobase"))
	if _, err := gitCmd(repo, "init", "-q", "."); err != nil {
		c.EmitR(op, "skip", "skip")
		return
	}
	var commits []string
	for k, pre := range []string{"alpha", "beta"} {
		gitCmd(repo, "rm", "-rq", "--ignore-unmatch", ".")
		for i := 0; i < 50; i++ {
			d := filepath.Join(repo, fmt.Sprintf("%s%03d", pre, i), "nested")
			os.MkdirAll(d, 0755)
			os.WriteFile(filepath.Join(d, "f"), []byte(fmt.Sprintf("%s %d", pre, i)), 0644)
			os.WriteFile(filepath.Join(filepath.Dir(d), "g"), []byte("g"), 0755)
		}
		gitCmd(repo, "add", "-A")
		gitCmd(repo, "commit", "-q", "-m", fmt.Sprint(k))
		h, _ := gitCmd(repo, "rev-parse", "HEAD")
		commits = append(commits, strings.TrimSpace(h))
	}
	wh := []api.WarehouseLocation{api.WarehouseLocation("file://" + filepath.Join(repo, ".git"))}
	uf := api.MustParseFilesetUnpackFilter(losslessUnpackStr)
	unpack := func(commit, dst string) string {
		id, err, pan := safeCall(func() (api.WareID, error) {
			return gittrans.Unpack(context.Background(), api.WareID{Type: "git", Hash: commit}, dst, uf, rio.Placement_Direct, wh, rio.Monitor{})
		})
		return resTok(id, err, pan)
	}
	var alone [2]string
	for k, cm := range commits {
		d := filepath.Join(base, fmt.Sprintf("alone%d", k))
		if r := unpack(cm, d); !strings.HasPrefix(r, "ok") {
			c.EmitR(op, "skip", "skip")
			return
		}
		sn, _ := Snapshot(d)
		alone[k] = sn.Digest(true)
	}
	rounds := 3
	if c.Tier == "thorough" {
		rounds = 12
	}
	for r := 0; r < rounds; r++ {
		var res [2]string
		var wg sync.WaitGroup
		for k := range commits {
			wg.Add(1)
			go func(k int) {
				defer wg.Done()
				res[k] = unpack(commits[k], filepath.Join(base, fmt.Sprintf("conc%d-%d", r, k)))
			}(k)
		}
		wg.Wait()
		for k := range commits {
			d := filepath.Join(base, fmt.Sprintf("conc%d-%d", r, k))
			if !strings.HasPrefix(res[k], "ok") {
				c.PropFail("git-unpack-failed", fmt.Sprintf("two git unpacks ran at the same time; the one of commit %d answered %s (alone it succeeds)", k, res[k]), op)
			} else if sn, _ := Snapshot(d); sn.Digest(true) != alone[k] {
				c.PropFail("git-content", fmt.Sprintf("two git unpacks ran at the same time; the tree of commit %d differs from what the same commit unpacks to alone", k), op)
			}
			rmrf(d)
		}
	}
	c.H("git-concurrent")
	c.EmitR(op, "skip", "skip")
}

// gitRawTree writes a tree object exactly as given (no fsck): entries are (octal mode, name, 40-hex object id).
func gitRawTree(repo string, ents [][3]string) (string, error) {
	var buf bytes.Buffer
	for _, e := range ents {
		raw, err := hex.DecodeString(e[2])
		if err != nil {
			return "", err
		}
		buf.WriteString(e[0] + " " + e[1] + "\x00")
		buf.Write(raw)
	}
	return gitRawObject(repo, "tree", buf.Bytes())
}

func gitRawObject(repo, typ string, body []byte) (string, error) {
	cmd := exec.Command("git", "hash-object", "-t", typ, "-w", "--literally", "--stdin")
	cmd.Dir = repo
	cmd.Stdin = bytes.NewReader(body)
	out, err := cmd.Output()
	return strings.TrimSpace(string(out)), err
}

// gitHostile: commits whose tree objects were written by hand — file modes outside the usual four, names that begin with
// "/", ".." names, a commit whose tree is absent.  Each unpack answers (never panics); what is placed is what the model
// places for the walked entries; nothing lands outside the destination.  Recipe: "git-hostile".
func gitHostile(c *Ctx, op string) {
	c.Begin(op)
	gitCase++
	base := filepath.Join(c.Work, fmt.Sprintf("gh%d", gitCase))
	defer rmrf(base)
	repo := filepath.Join(base, "repo")
	os.MkdirAll(repo, 0755)
	os.Setenv("RIO_CACHE", filepath.Join(base, "cache"))
	os.Setenv("RIO_BASE", filepath.Join(base, "riobase"))
	if _, err := gitCmd(repo, "init", "-q", "."); err != nil {
		c.EmitR(op, "skip", "skip")
		return
	}
	gitCmd(repo, "commit", "-q", "--allow-empty", "-m", "root")
	blob, err := gitRawObject(repo, "blob", []byte("payload\n"))
	if err != nil {
		c.EmitR(op, "skip", "skip")
		c.H("git-hostile-unavailable")
		return
	}
	sub := func(ents ...[3]string) string { t, _ := gitRawTree(repo, ents); return t }
	sub2, _ := gitRawObject(repo, "blob", []byte(".."))
	type hcase struct {
		name string
		tree string
		walk [][3]string // what go-git's walker yields: (path, mode letter, blob bytes)
	}
	cases := []hcase{
		{"mode-100664", sub([3]string{"100664", "gw", blob}, [3]string{"100644", "n", blob}), [][3]string{{"gw", "g", "payload\n"}, {"n", "f", "payload\n"}}},
		{"mode-100600", sub([3]string{"100600", "odd", blob}), [][3]string{{"odd", "r", "payload\n"}}},
		{"mode-100775", sub([3]string{"100775", "m775", blob}), [][3]string{{"m775", "X", "payload\n"}}},
		{"mode-100640", sub([3]string{"100640", "m640", blob}), [][3]string{{"m640", "r", "payload\n"}}},
		{"mode-100611", sub([3]string{"100611", "m611", blob}), [][3]string{{"m611", "r", "payload\n"}}},
		{"mode-100654", sub([3]string{"100654", "m654", blob}, [3]string{"100700", "m700", blob}), [][3]string{{"m654", "r", "payload\n"}, {"m700", "X", "payload\n"}}},
		{"mode-100710", sub([3]string{"100710", "m710", blob}, [3]string{"100601", "m601", blob}), [][3]string{{"m601", "r", "payload\n"}, {"m710", "X", "payload\n"}}},
		{"mode-0", sub([3]string{"0", "zero", blob}), [][3]string{{"zero", "?", "payload\n"}}},
		{"mode-100777", sub([3]string{"100644", "a", blob}, [3]string{"100777", "b", blob}), [][3]string{{"a", "f", "payload\n"}, {"b", "X", "payload\n"}}},
		{"abs-name", sub([3]string{"100644", "/abs", blob}), [][3]string{{"/abs", "f", "payload\n"}}},
		{"dotdot-file", sub([3]string{"100644", "..", blob}), nil},
		{"dotdot-dir", sub([3]string{"40000", "..", sub([3]string{"100644", "escaped", blob})}), nil},
		{"dotdot-slash", sub([3]string{"100644", "a/../../escaped2", blob}), nil},
		{"dotdot-link", sub([3]string{"120000", "lnk", sub2}, [3]string{"40000", "lnk", sub([3]string{"100644", "escaped3", blob})}), nil},
		{"abs-name-nested", sub([3]string{"40000", "d", sub([3]string{"100644", "/x", blob})}), [][3]string{{"d", "d", ""}, {"d/x", "f", "payload\n"}}},
	}
	uf := api.MustParseFilesetUnpackFilter(losslessUnpackStr)
	wh := []api.WarehouseLocation{api.WarehouseLocation("file://" + filepath.Join(repo, ".git"))}
	listing := func(dir string) string {
		sn, _ := Snapshot(dir)
		var lines []string
		for _, e := range sn {
			lines = append(lines, fmt.Sprintf("%s|%c|%d|%d|%d|%d|%s", hx(e.Name), e.Kind, permsOf(e), e.Uid, e.Gid, e.Sec, hx(e.Link)))
		}
		sort.Strings(lines)
		return strings.Join(lines, ",")
	}
	for _, hc := range cases {
		sop := op + " " + hc.name
		if hc.tree == "" {
			c.H("git-hostile-skip:" + hc.name)
			continue
		}
		out, err := gitCmd(repo, "commit-tree", "-m", hc.name, hc.tree)
		if err != nil {
			c.H("git-hostile-skip:" + hc.name)
			continue
		}
		commit := strings.TrimSpace(out)
		gitCmd(repo, "update-ref", "refs/heads/h-"+hc.name, commit)
		dst := filepath.Join(base, "dst-"+hc.name, "in")
		os.MkdirAll(filepath.Dir(dst), 0755)
		_, uerr, upan := safeCall(func() (api.WareID, error) {
			return gittrans.Unpack(context.Background(), api.WareID{Type: "git", Hash: commit}, dst, uf, rio.Placement_Direct, wh, rio.Monitor{})
		})
		var toks []string
		for _, e := range hc.walk {
			toks = append(toks, hx(e[0])+":"+e[1]+":"+hx(e[2]))
		}
		modelOp := fmt.Sprintf("git %s %d %d %s", filterInts(uf), os.Getuid(), os.Getgid(), strings.Join(toks, ";"))
		res := ""
		switch {
		case upan != "":
			res = "panic"
			c.PropFail("git-panic", "a commit with a hand-written tree ("+hc.name+") made the unpack panic: "+upan, sop)
		case uerr != nil && strings.HasPrefix(hc.name, "mode-100"):
			// git itself lists and checks out every 100xxx mode as 100644 or 100755 (by the owner-execute bit)
			res = "err " + catOf(uerr)
			c.PropFail("git-unpack-failed", "a tree entry with file mode "+strings.TrimPrefix(hc.name, "mode-")+" — which git canonicalises to a regular or executable file — is refused: "+uerr.Error(), sop)
		case uerr != nil:
			res = "err " + catOf(uerr)
			if catOf(uerr) != "rio-ware-corrupt" {
				c.PropFail("git-hostile-category", "a malformed tree ("+hc.name+") is reported as "+catOf(uerr)+", not as a corrupt ware", sop)
			}
		default:
			res = listing(dst)
			if strings.HasPrefix(hc.name, "mode-100") {
				// git's own rule, from the tree object alone: a regular file is executable iff its owner-execute bit is set
				if raw, e := gitCmd(repo, "cat-file", "-p", hc.tree); e == nil {
					for _, ln := range strings.Split(strings.TrimSpace(raw), "\n") {
						f := strings.Fields(ln)
						if len(f) < 4 || f[1] != "blob" {
							continue
						}
						var m uint32
						fmt.Sscanf(f[0], "%o", &m)
						want := os.FileMode(0644)
						if m&0100 != 0 {
							want = 0755
						}
						if st, e := os.Lstat(filepath.Join(dst, f[3])); e == nil && st.Mode().Perm() != want {
							c.PropFail("git-mode", fmt.Sprintf("tree entry %s with mode %s is delivered with permissions %o; git yields %o (owner-execute bit alone decides)", f[3], f[0], st.Mode().Perm(), want), sop)
						}
					}
				}
			}
		}
		// nothing outside the destination
		if sibs, _ := os.ReadDir(filepath.Dir(dst)); len(sibs) > 1 {
			c.PropFail("git-escape", "the unpack of "+hc.name+" left "+sibs[0].Name()+","+sibs[1].Name()+" beside the destination", sop)
		}
		if hc.walk == nil { // outside the entry model: only the answer and the escape check count
			c.H("git-hostile:" + hc.name + ":" + resTok(api.WareID{}, uerr, upan))
			c.EmitR(sop, "skip", "skip")
			continue
		}
		c.H("git-hostile:" + hc.name + ":" + strings.Fields(res + " x")[0][:min(len(strings.Fields(res + " x")[0]), 5)])
		c.EmitR(sop, modelOp, res)
	}
	// a sub-tree object the repository has lost (a damaged object store): the unpack fails, it does not deliver the part of
	// the tree that precedes the hole
	{
		sop := op + " missing-subtree"
		dTree := sub([3]string{"100644", "f", blob})
		root := sub([3]string{"100644", "a", blob}, [3]string{"40000", "d", dTree}, [3]string{"100644", "z", blob})
		if out, err := gitCmd(repo, "commit-tree", "-m", "hole", root); err == nil && dTree != "" {
			commit := strings.TrimSpace(out)
			gitCmd(repo, "update-ref", "refs/heads/h-missing-subtree", commit)
			os.Remove(filepath.Join(repo, ".git", "objects", dTree[:2], dTree[2:]))
			for _, pm := range []rio.PlacementMode{rio.Placement_Direct, rio.Placement_Copy} {
				dst := filepath.Join(base, "dst-hole-"+string(pm))
				got, uerr, upan := safeCall(func() (api.WareID, error) {
					return gittrans.Unpack(context.Background(), api.WareID{Type: "git", Hash: commit}, dst, uf, pm, wh, rio.Monitor{})
				})
				switch {
				case upan != "":
					c.PropFail("git-panic", "a commit with a missing sub-tree object made the unpack panic: "+upan, sop)
				case uerr == nil:
					_, ez := os.Lstat(filepath.Join(dst, "z"))
					_, ed := os.Lstat(filepath.Join(dst, "d", "f"))
					c.PropFail("git-content", fmt.Sprintf("the repository lacks the tree object of directory d; the unpack (%s) answers %s and delivers a tree without it (d/f: %v, the later sibling z: %v)", pm, got, ed, ez), sop)
				}
				c.H("git-hostile:missing-subtree:" + resTok(got, uerr, upan))
			}
		}
	}
	// a commit object naming a tree that is not in the repository
	{
		sop := op + " missing-tree"
		body := "tree 4b825dc642cb6eb9a060e54bf8d69288fbee4905\nauthor v <v@v> 978307200 +0000\ncommitter v <v@v> 978307200 +0000\n\nno tree\n"
		body = strings.Replace(body, "4b825dc642cb6eb9a060e54bf8d69288fbee4905", "1234567890123456789012345678901234567890", 1)
		if commit, err := gitRawObject(repo, "commit", []byte(body)); err == nil {
			gitCmd(repo, "update-ref", "refs/heads/h-missing-tree", commit)
			_, uerr, upan := safeCall(func() (api.WareID, error) {
				return gittrans.Unpack(context.Background(), api.WareID{Type: "git", Hash: commit}, filepath.Join(base, "dst-mt"), uf, rio.Placement_Direct, wh, rio.Monitor{})
			})
			switch {
			case upan != "":
				c.PropFail("git-panic", "a commit whose tree object is absent made the unpack panic: "+upan, sop)
			case uerr == nil:
				c.PropFail("git-extra", "a commit whose tree object is absent unpacked successfully", sop)
			}
			c.H("git-hostile:missing-tree:" + resTok(api.WareID{}, uerr, upan))
		}
	}
	c.EmitR(op, "skip", "skip")
}
