package main

import (
	"context"
	"fmt"
	"os"
	"path/filepath"
	"strings"
	"time"

	api "github.com/polydawn/go-timeless-api"
	"github.com/polydawn/go-timeless-api/rio"
)

func init() { engines["packmtime"] = packMtimeEngine }

// packmtime: under a filter that sets every mtime (mtime=@N, or the library's flattening default), the ware id does not
// depend on when the files were touched — whatever the moment: before 1970, after 2106 (outside what zip can store),
// beyond 2262, sub-second. Recipe: "packmtime <tar|zip> <filter>".
func packMtimeExec(c *Ctx, op string) {
	c.Begin(op)
	f := strings.Fields(op)
	fmtName, filt := f[1], f[2]
	caseCounter++
	base := filepath.Join(c.Work, fmt.Sprintf("pmt%d", caseCounter))
	defer rmrf(base)
	ctx := context.Background()
	fn := funcsFor(fmtName)
	pf, err := api.ParseFilesetPackFilter(filt)
	if err != nil {
		c.EmitR(op, "skip", "skip")
		return
	}
	pf = pf.Apply(api.FilesetPackFilter_Flatten)
	mk := func(name string, when map[string]time.Time) string {
		d := filepath.Join(base, name)
		os.MkdirAll(filepath.Join(d, "sub"), 0755)
		os.WriteFile(filepath.Join(d, "old"), []byte("o"), 0644)
		os.WriteFile(filepath.Join(d, "sub", "f"), []byte("f"), 0644)
		os.Symlink("old", filepath.Join(d, "lnk"))
		for _, p := range []string{"old", "sub/f", "sub", "."} {
			t := time.Unix(1433116800, 0)
			if w, ok := when[p]; ok {
				t = w
			}
			os.Chtimes(filepath.Join(d, p), t, t)
		}
		return d
	}
	pack := func(d string) string {
		id, err, pan := safeCall(func() (api.WareID, error) { return fn.pack(ctx, api.PackType(fmtName), d, pf, "", rio.Monitor{}) })
		return resTok(id, err, pan)
	}
	c.EmitR(op, "skip", "skip")
	ref := pack(mk("ref", nil))
	c.H("packmtime:" + fmtName + ":ref:" + strings.Fields(ref)[0])
	if !strings.HasPrefix(ref, "ok ") {
		return
	}
	cases := []struct {
		name string
		when map[string]time.Time
	}{
		{"1969-file", map[string]time.Time{"old": time.Unix(-100, 0)}},
		{"1901-dir", map[string]time.Time{"sub": time.Unix(-2147483648, 0)}},
		{"2200-file", map[string]time.Time{"sub/f": time.Unix(7258118400, 0)}},
		{"2300-root", map[string]time.Time{".": time.Unix(10413792000, 0)}},
		{"subsecond", map[string]time.Time{"old": time.Unix(1433116800, 123456789), "sub": time.Unix(1433116801, 5)}},
	}
	for _, cs := range cases {
		got := pack(mk(cs.name, cs.when))
		c.H("packmtime:" + fmtName + ":" + cs.name + ":" + strings.Fields(got)[0])
		if got != ref {
			c.PropFail("filter-attr", fmt.Sprintf("%s pack under the filter %s: the fileset packs to %s, the same fileset with %s touched at another moment to %s", fmtName, filt, ref, cs.name, got), op)
		}
	}
	c.Distinct(op)
}

func packMtimeEngine(c *Ctx) {
	if ls := replayLines(); ls != nil {
		for _, op := range ls {
			if strings.HasPrefix(op, "packmtime ") {
				packMtimeExec(c, op)
			}
		}
		return
	}
	for _, fm := range []string{"tar", "zip"} {
		for _, filt := range []string{"mtime=@1262304000", "uid=keep,gid=keep,mtime=@86400,sticky=keep,setid=keep,dev=keep", "uid=1,gid=2"} {
			packMtimeExec(c, fmt.Sprintf("packmtime %s %s", fm, filt))
		}
	}
}
