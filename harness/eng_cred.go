package main

import (
	"fmt"
	"os"
	"os/exec"
	"path/filepath"
	"strings"
	"syscall"
)

func init() { engines["cred"] = credEngine }

// cred (C12): "mine" means the ids of the unpacking process.  The rio binary is run under credentials whose uid and
// gid differ (0:5, 0:77); with uid=mine,gid=mine every delivered entry must be owned uid:gid of that process; with
// explicit numbers those numbers; with follow the ware's ids.
func credExec(c *Ctx, op string) {
	c.Begin(op)
	f := strings.Fields(op)
	var gid uint32
	fmt.Sscan(f[1], &gid)
	filt := f[2]
	bin := os.Getenv("RIO_BIN")
	if bin == "" {
		c.EmitR(op, "skip", "skip")
		return
	}
	caseCounter++
	base := filepath.Join(c.Work, fmt.Sprintf("cr%d", caseCounter))
	defer rmrf(base)
	src, wh, dst := filepath.Join(base, "src"), filepath.Join(base, "wh"), filepath.Join(base, "dst")
	os.MkdirAll(filepath.Join(src, "d"), 0755)
	os.WriteFile(filepath.Join(src, "d", "f"), []byte("x"), 0644)
	os.WriteFile(filepath.Join(src, "g"), []byte("y"), 0600)
	for _, p := range []string{src, filepath.Join(src, "d"), filepath.Join(src, "d", "f"), filepath.Join(src, "g")} {
		os.Lchown(p, 1000, 1001)
	}
	os.MkdirAll(wh, 0755)
	env := append(os.Environ(), "RIO_CACHE="+filepath.Join(base, "cache"), "RIO_BASE="+filepath.Join(base, "riobase"))
	pk := exec.Command(bin, "pack", "tar", src, "--target=ca+file://"+wh, "--filters", "uid=keep,gid=keep,mtime=keep,sticky=keep,setid=keep,dev=keep")
	pk.Env = env
	out, err := pk.Output()
	if err != nil {
		c.EmitR(op, "skip", "skip")
		return
	}
	id := strings.TrimSpace(string(out))
	up := exec.Command(bin, "unpack", id, dst, "--source=ca+file://"+wh, "--placer=direct", "--filters", filt)
	up.Env = env
	up.SysProcAttr = &syscall.SysProcAttr{Credential: &syscall.Credential{Uid: 0, Gid: gid}}
	if o, e := up.CombinedOutput(); e != nil {
		c.PropFail("filter-attr", fmt.Sprintf("rio unpack under credentials 0:%d with filters %s failed: %s", gid, filt, lastLine(string(o))), op)
		c.EmitR(op, "skip", "skip")
		return
	}
	wantU, wantG := uint32(1000), uint32(1001)
	for _, kv := range strings.Split(filt, ",") {
		x := strings.SplitN(kv, "=", 2)
		var n uint32
		switch {
		case x[0] == "uid" && x[1] == "mine":
			wantU = 0
		case x[0] == "gid" && x[1] == "mine":
			wantG = gid
		case x[0] == "uid" && x[1] != "follow":
			fmt.Sscan(x[1], &n)
			wantU = n
		case x[0] == "gid" && x[1] != "follow":
			fmt.Sscan(x[1], &n)
			wantG = n
		}
	}
	sn, _ := Snapshot(dst)
	for _, e := range sn {
		if e.Uid != wantU || e.Gid != wantG {
			c.PropFail("filter-attr", fmt.Sprintf("unpacked by a process with ids 0:%d under filters %s, entry %q is owned %d:%d instead of %d:%d", gid, filt, e.Name, e.Uid, e.Gid, wantU, wantG), op)
			break
		}
	}
	c.H("cred:" + f[1])
	c.EmitR(op, "skip", "skip")
	c.Distinct(op)
}

// credUnprivExec: the unpacking process is an ordinary account (no CAP_CHOWN) and the filter asks for owners that are
// not its own: the unpack is refused — or, if it answers success, every entry really has the owner the filter gives
// (the id it reports describes those owners). Recipe: "cred-unpriv <filter>".
func credUnprivExec(c *Ctx, op string) {
	c.Begin(op)
	filt := strings.Fields(op)[1]
	bin := os.Getenv("RIO_BIN")
	c.EmitR(op, "skip", "skip")
	if bin == "" || os.Getuid() != 0 {
		return
	}
	top, err := os.MkdirTemp("/tmp", "verif-cred-unpriv-")
	if err != nil {
		return
	}
	defer rmrf(top)
	os.Chmod(top, 0755)
	// (the binary is run by an unprivileged user below: wherever the harness keeps it may lie under a directory that user
	// cannot traverse — /root/… in a snapshot — so it is run from a copy in a world-searchable place)
	if b, e := os.ReadFile(bin); e == nil && os.WriteFile(filepath.Join(top, "rio"), b, 0755) == nil {
		bin = filepath.Join(top, "rio")
		os.Chmod(bin, 0755)
	}
	src, wh, area := filepath.Join(top, "src"), filepath.Join(top, "wh"), filepath.Join(top, "area")
	os.MkdirAll(filepath.Join(src, "d"), 0755)
	os.WriteFile(filepath.Join(src, "d", "f"), []byte("x"), 0644)
	os.WriteFile(filepath.Join(src, "g"), []byte("y"), 0644)
	for _, p := range []string{src, filepath.Join(src, "d"), filepath.Join(src, "d", "f"), filepath.Join(src, "g")} {
		os.Lchown(p, 1000, 1001)
	}
	os.MkdirAll(wh, 0755)
	os.MkdirAll(area, 0755)
	env := append(os.Environ(), "RIO_CACHE="+filepath.Join(area, "cache"), "RIO_BASE="+filepath.Join(area, "riobase"), "HOME="+area)
	pk := exec.Command(bin, "pack", "tar", src, "--target=ca+file://"+wh, "--filters", "uid=keep,gid=keep,mtime=keep,sticky=keep,setid=keep,dev=keep")
	pk.Env = append(os.Environ(), "RIO_CACHE="+filepath.Join(top, "pcache"), "RIO_BASE="+filepath.Join(top, "pbase"))
	out, err := pk.Output()
	if err != nil {
		return
	}
	id := strings.TrimSpace(string(out))
	exec.Command("chown", "-R", "12345:12345", area).Run()
	exec.Command("chmod", "-R", "a+rX", wh).Run()
	dst := filepath.Join(area, "dst")
	up := exec.Command(bin, "unpack", id, dst, "--source=ca+file://"+wh, "--placer=direct", "--filters", filt)
	up.Env = env
	up.Dir = area
	up.SysProcAttr = &syscall.SysProcAttr{Credential: &syscall.Credential{Uid: 12345, Gid: 12345, NoSetGroups: false, Groups: []uint32{12345}}}
	o, e := up.CombinedOutput()
	c.H(fmt.Sprintf("cred-unpriv:ok=%v", e == nil))
	if e != nil {
		return // refused: fine
	}
	wantU, wantG := uint32(1000), uint32(1001)
	for _, kv := range strings.Split(filt, ",") {
		x := strings.SplitN(kv, "=", 2)
		var n uint32
		switch {
		case x[0] == "uid" && x[1] == "mine":
			wantU = 12345
		case x[0] == "gid" && x[1] == "mine":
			wantG = 12345
		case x[0] == "uid" && x[1] != "follow":
			fmt.Sscan(x[1], &n)
			wantU = n
		case x[0] == "gid" && x[1] != "follow":
			fmt.Sscan(x[1], &n)
			wantG = n
		}
	}
	sn, _ := Snapshot(dst)
	for _, en := range sn {
		if en.Uid != wantU || en.Gid != wantG {
			c.PropFail("filter-attr", fmt.Sprintf("rio unpack run by an ordinary account (12345:12345) under filters %s answered success (%s), but entry %q is owned %d:%d instead of %d:%d: the id reported describes owners the files do not have", filt, lastLine(string(o)), en.Name, en.Uid, en.Gid, wantU, wantG), op)
			break
		}
	}
	c.Distinct(op)
}

func credEngine(c *Ctx) {
	if ls := replayLines(); ls != nil {
		for _, op := range ls {
			if strings.HasPrefix(op, "cred ") {
				credExec(c, op)
			} else if strings.HasPrefix(op, "cred-unpriv ") {
				credUnprivExec(c, op)
			}
		}
		return
	}
	rest := ",mtime=follow,sticky=follow,setid=follow,dev=follow"
	for _, ug := range []string{"uid=4242,gid=4242", "uid=follow,gid=follow", "uid=mine,gid=mine", "uid=mine,gid=follow"} {
		credUnprivExec(c, "cred-unpriv "+ug+rest)
	}
	for _, g := range []int{5, 77} {
		for _, ug := range []string{"uid=mine,gid=mine", "uid=follow,gid=mine", "uid=mine,gid=follow", "uid=9,gid=mine", "uid=mine,gid=12"} {
			credExec(c, fmt.Sprintf("cred %d %s%s", g, ug, rest))
			if c.Tier != "thorough" && g == 77 {
				break
			}
		}
	}
}
