package main

import (
	"bytes"
	"crypto/sha512"
	"encoding/hex"
	"fmt"
	"hash"
	"sort"
	"strings"

	"github.com/polydawn/refmt/misc"
	"github.com/polydawn/rio/transmat/mixins/fshash"
)

func init() { engines["hash"] = hashEngine }

// recHasher is a hash.Hash whose digest is the pre-image itself.
type recHasher struct{ buf []byte }

func (r *recHasher) Write(p []byte) (int, error) { r.buf = append(r.buf, p...); return len(p), nil }
func (r *recHasher) Sum(b []byte) []byte         { return append(b, r.buf...) }
func (r *recHasher) Reset()                      { r.buf = nil }
func (r *recHasher) Size() int                   { return 0 }
func (r *recHasher) BlockSize() int              { return 1 }

func recTok(e Entry, rawName string, chash []byte) string {
	return e.MetaTokNamed(rawName) + "/" + hx(string(chash))
}

func classifyPanic(r interface{}) string {
	s := fmt.Sprint(r)
	switch {
	case strings.Contains(s, "missing root"):
		return "missing-root"
	case strings.Contains(s, "repeated path"):
		return "repeated-path"
	case strings.Contains(s, "missing tree"):
		return "missing-tree"
	case strings.Contains(s, "slice bounds out of range"):
		return "slice-bounds"
	case strings.Contains(s, "index out of range"):
		return "empty-bucket"
	case strings.Contains(s, "visited"):
		return "count-mismatch"
	case strings.Contains(s, "not a relative path"):
		return "mustrel"
	}
	return "other:" + s
}

// implBucket runs the real MemoryBucket + HashBucket on record tokens.
func implBucket(h string, recs string) (out string) {
	defer func() {
		if r := recover(); r != nil {
			out = "panic " + classifyPanic(r)
		}
	}()
	b := &fshash.MemoryBucket{}
	if recs != "-" {
		for _, rt := range strings.Split(recs, ";") {
			parts := strings.Split(rt, "/")
			e, raw := parseMetaTok(parts[0])
			var ch []byte
			if parts[1] != "-" {
				ch, _ = hex.DecodeString(parts[1])
			}
			b.AddRecord(e.ToMetaNamed(raw), ch)
		}
	}
	var factory func() hash.Hash
	if h == "id" {
		factory = func() hash.Hash { return &recHasher{} }
	} else {
		factory = sha512.New384
	}
	res := fshash.HashBucket(b, factory)
	if h == "sha" {
		return "ok " + misc.Base58Encode(res)
	}
	return "ok " + hx(string(res))
}

// ---- independent reference implementation of the documented tree hash (C05 oracle) ----

func refHead(major byte, v uint64) []byte {
	switch {
	case v <= 23:
		return []byte{major + byte(v)}
	case v <= 0xff:
		return []byte{major + 24, byte(v)}
	case v <= 0xffff:
		return []byte{major + 25, byte(v >> 8), byte(v)}
	case v <= 0xffffffff:
		return []byte{major + 26, byte(v >> 24), byte(v >> 16), byte(v >> 8), byte(v)}
	}
	return []byte{major + 27, byte(v >> 56), byte(v >> 48), byte(v >> 40), byte(v >> 32), byte(v >> 24), byte(v >> 16), byte(v >> 8), byte(v)}
}
func refStr(s string) []byte   { return append(refHead(0x60, uint64(len(s))), s...) }
func refBytes(s []byte) []byte { return append(refHead(0x40, uint64(len(s))), s...) }
func refInt(v int64) []byte {
	if v >= 0 {
		return refHead(0, uint64(v))
	}
	return refHead(0x20, uint64(-1-v))
}
func refMeta(e Entry) []byte {
	n := 7
	if e.Link != "" {
		n++
	}
	if len(e.Xattrs) > 0 {
		n++
	}
	if e.Kind == 'D' || e.Kind == 'c' {
		n += 2
	}
	base := "."
	if e.Name != "" {
		base = e.Name[strings.LastIndexByte(e.Name, '/')+1:]
	}
	var b []byte
	b = append(b, refHead(0xa0, uint64(n))...)
	b = append(b, refStr("n")...)
	b = append(b, refStr(base)...)
	b = append(b, refStr("t")...)
	b = append(b, refStr(string([]byte{e.Kind}))...)
	b = append(b, refStr("p")...)
	b = append(b, refInt(int64(e.Perms))...)
	b = append(b, refStr("u")...)
	b = append(b, refInt(int64(e.Uid))...)
	b = append(b, refStr("g")...)
	b = append(b, refInt(int64(e.Gid))...)
	if e.Link != "" {
		b = append(b, refStr("l")...)
		b = append(b, refStr(e.Link)...)
	}
	if e.Kind == 'D' || e.Kind == 'c' {
		b = append(b, refStr("dM")...)
		b = append(b, refInt(e.Maj)...)
		b = append(b, refStr("dm")...)
		b = append(b, refInt(e.Min)...)
	}
	b = append(b, refStr("m")...)
	b = append(b, refInt(e.Sec)...)
	b = append(b, refStr("mn")...)
	b = append(b, refInt(int64(e.Nsec))...)
	if len(e.Xattrs) > 0 {
		b = append(b, refStr("x")...)
		b = append(b, refHead(0xa0, uint64(len(e.Xattrs)))...)
		var ks []string
		for k := range e.Xattrs {
			ks = append(ks, k)
		}
		sort.Strings(ks)
		for _, k := range ks {
			b = append(b, refStr(k)...)
			b = append(b, refStr(e.Xattrs[k])...)
		}
	}
	return b
}

// RefTreeHash: hash(dir) = H({"m": meta, "l": [hash(child)... in order of child key, dirs keyed with a
// trailing slash]}), hash(file) = H({"m": meta, "h": H(content)}); other kinds contribute nothing
// (the frozen de-facto format). contentHash lets callers avoid re-hashing.
func RefTreeHash(f Fileset, H func([]byte) []byte) []byte {
	children := map[string][]int{}
	for i, e := range f {
		if e.Name == "" {
			continue
		}
		parent := ""
		if j := strings.LastIndexByte(e.Name, '/'); j >= 0 {
			parent = e.Name[:j]
		}
		children[parent] = append(children[parent], i)
	}
	key := func(i int) string {
		k := f[i].Name
		if f[i].Kind == 'd' {
			k += "/"
		}
		return k
	}
	var rec func(i int) []byte
	rec = func(i int) []byte {
		e := f[i]
		switch e.Kind {
		case 'd':
			var b []byte
			b = append(b, 0xa2)
			b = append(b, refStr("m")...)
			b = append(b, refMeta(e)...)
			b = append(b, refStr("l")...)
			b = append(b, 0x9f)
			kids := append([]int(nil), children[e.Name]...)
			sort.Slice(kids, func(a, c int) bool { return key(kids[a]) < key(kids[c]) })
			for _, k := range kids {
				if h := rec(k); h != nil {
					b = append(b, refBytes(h)...)
				}
			}
			b = append(b, 0xff)
			return H(b)
		case 'f':
			var b []byte
			b = append(b, 0xa2)
			b = append(b, refStr("m")...)
			b = append(b, refMeta(e)...)
			b = append(b, refStr("h")...)
			b = append(b, refBytes(H(e.Content))...)
			return H(b)
		}
		return nil
	}
	return rec(0)
}

// treeTokens renders a fileset as nested `( record kids… )` tokens, children in key order.
func treeTokens(f Fileset, H func([]byte) []byte) string {
	children := map[string][]int{}
	for i, e := range f {
		if e.Name == "" {
			continue
		}
		parent := ""
		if j := strings.LastIndexByte(e.Name, '/'); j >= 0 {
			parent = e.Name[:j]
		}
		children[parent] = append(children[parent], i)
	}
	key := func(i int) string {
		k := f[i].Name
		if f[i].Kind == 'd' {
			k += "/"
		}
		return k
	}
	var sb strings.Builder
	var rec func(i int)
	rec = func(i int) {
		e := f[i]
		raw := e.Name
		if raw == "" {
			raw = "."
		}
		var ch []byte
		if e.Kind == 'f' {
			ch = H(e.Content)
		}
		sb.WriteString("( " + recTok(e, raw, ch) + " ")
		kids := append([]int(nil), children[e.Name]...)
		sort.Slice(kids, func(a, c int) bool { return key(kids[a]) < key(kids[c]) })
		if e.Kind == 'd' {
			for _, k := range kids {
				rec(k)
			}
		}
		sb.WriteString(") ")
	}
	rec(0)
	return strings.TrimSpace(sb.String())
}

func sha384(b []byte) []byte { h := sha512.Sum384(b); return h[:] }
func idHash(b []byte) []byte { return append([]byte(nil), b...) }

func filesetRecs(f Fileset, order []int, H func([]byte) []byte) string {
	var toks []string
	for _, i := range order {
		e := f[i]
		raw := e.Name
		if raw == "" {
			raw = "."
		}
		var ch []byte
		if e.Kind == 'f' {
			ch = H(e.Content)
		}
		toks = append(toks, recTok(e, raw, ch))
	}
	if len(toks) == 0 {
		return "-"
	}
	return strings.Join(toks, ";")
}

func (c *Ctx) perm(n int) []int {
	p := make([]int, n)
	for i := range p {
		p[i] = i
	}
	for i := n - 1; i > 0; i-- {
		j := c.Intn(i + 1)
		p[i], p[j] = p[j], p[i]
	}
	return p
}
func ident(n int) []int {
	p := make([]int, n)
	for i := range p {
		p[i] = i
	}
	return p
}

// singleEdits returns (description, class, edited fileset) for every single-attribute / single-entry edit.
// class "nonfiledir" marks edits that only concern an entry that is neither file nor directory.
func (c *Ctx) singleEdits(f Fileset) (out []struct {
	desc, class string
	f           Fileset
}) {
	add := func(desc string, i int, g Fileset) {
		cl := "filedir"
		if f[i].Kind != 'f' && f[i].Kind != 'd' {
			cl = "nonfiledir"
		}
		out = append(out, struct {
			desc, class string
			f           Fileset
		}{desc, cl, g})
	}
	for i := range f {
		e := f[i]
		mod := func(desc string, fn func(*Entry)) {
			g := f.clone()
			fn(&g[i])
			for k := range g {
				if k != i && g[k].Name == g[i].Name {
					return // the edit ran into the name of another entry: not a well-formed fileset any more
				}
			}
			add(fmt.Sprintf("%s of entry %q (%c)", desc, e.Name, e.Kind), i, g)
		}
		mod("perm bit", func(x *Entry) { x.Perms ^= 1 << uint(c.Intn(12)) })
		mod("uid", func(x *Entry) { x.Uid++ })
		mod("gid", func(x *Entry) { x.Gid ^= 1 << uint(c.Intn(32)) })
		mod("mtime sec", func(x *Entry) { x.Sec += int64(1 + c.Intn(5)) })
		mod("mtime nsec", func(x *Entry) { x.Nsec = (x.Nsec + 1 + c.Intn(999999998)) % 1000000000 })
		// shifts by exactly 2^64 ns and 2^63 ns: distinct times that a 64-bit nanosecond count cannot tell apart
		mod("mtime +2^64ns", func(x *Entry) {
			x.Sec += 18446744073
			x.Nsec += 709551616
			if x.Nsec >= 1000000000 {
				x.Nsec -= 1000000000
				x.Sec++
			}
		})
		mod("mtime -2^64ns", func(x *Entry) {
			x.Sec -= 18446744074
			x.Nsec += 290448384
			if x.Nsec >= 1000000000 {
				x.Nsec -= 1000000000
				x.Sec++
			}
		})
		mod("swap uid/gid", func(x *Entry) {
			if x.Uid == x.Gid {
				x.Uid++
			} else {
				x.Uid, x.Gid = x.Gid, x.Uid
			}
		})
		switch e.Kind {
		case 'f':
			mod("content byte", func(x *Entry) {
				if len(x.Content) == 0 {
					x.Content = []byte{0}
				} else {
					x.Content[c.Intn(len(x.Content))] ^= 0x40
				}
			})
			mod("content append NUL", func(x *Entry) { x.Content = append(x.Content, 0) })
		case 'L':
			mod("link target", func(x *Entry) { x.Link += "x" })
		case 'D', 'c':
			mod("devmajor", func(x *Entry) { x.Maj++ })
			mod("devminor", func(x *Entry) { x.Min++ })
			mod("dev kind", func(x *Entry) { x.Kind = 'D' + 'c' - x.Kind })
		}
		hasKids := false
		for _, o := range f {
			if strings.HasPrefix(o.Name, e.Name+"/") && e.Name != "" || (e.Name == "" && o.Name != "") {
				hasKids = true
			}
		}
		if i > 0 && !hasKids {
			// rename leaf to a fresh sibling name
			mod("name", func(x *Entry) { x.Name += "~r" })
			// change one byte of the basename (other invalid-UTF-8 bytes included): names are byte strings
			mod("name byte", func(x *Entry) {
				b := []byte(x.Name)
				j := strings.LastIndexByte(x.Name, '/') + 1 + c.Intn(len(b)-strings.LastIndexByte(x.Name, '/')-1)
				nb := byte(0x80 + c.Intn(0x7f))
				if b[j] >= 0x80 {
					nb = b[j] ^ byte(1+c.Intn(0x3f))
					if nb < 0x80 {
						nb |= 0x80
					}
				}
				if nb == b[j] {
					nb ^= 1
				}
				b[j] = nb
				x.Name = string(b)
			})
			mod("name invalid run", func(x *Entry) { x.Name += "\xff" })
			mod("name invalid run+1", func(x *Entry) { x.Name += "\xff\xfe" })
			// delete leaf
			g := append(f[:i:i].clone(), f[i+1:].clone()...)
			add(fmt.Sprintf("deletion of entry %q (%c)", e.Name, e.Kind), i, g)
			// type change among contentless representations
			if e.Kind == 'f' && len(e.Content) == 0 {
				mod("type file->dir", func(x *Entry) { x.Kind = 'd' })
			}
			if e.Kind == 'd' {
				mod("type dir->file", func(x *Entry) { x.Kind = 'f' })
			}
			// move into another directory
			for j := range f {
				if f[j].Kind == 'd' && j != i && !strings.HasPrefix(e.Name, f[j].Name+"/") && f[j].Name != "" {
					base := e.Name[strings.LastIndexByte(e.Name, '/')+1:]
					nn := f[j].Name + "/" + base
					clash := false
					for _, o := range f {
						if o.Name == nn {
							clash = true
						}
					}
					if !clash {
						mod("move to "+f[j].Name, func(x *Entry) { x.Name = nn })
						break
					}
				}
			}
		}
	}
	return
}

func hashExec(c *Ctx, op string) string {
	f := strings.Fields(op)
	switch f[1] {
	case "sha":
		b, _ := hex.DecodeString(strings.Replace(f[2], "-", "", 1))
		return hx(string(sha384(b)))
	case "b58":
		b, _ := hex.DecodeString(strings.Replace(f[2], "-", "", 1))
		s := misc.Base58Encode(b)
		if s == "" {
			return "-"
		}
		return s
	case "bucket":
		return implBucket(f[2], f[3])
	case "spec":
		// the implementation side of a `spec` op is the real HashBucket on the tree's records
		var recs []string
		for _, t := range f[3:] {
			if t != "(" && t != ")" {
				recs = append(recs, t)
			}
		}
		return implBucket(f[2], strings.Join(recs, ";"))
	}
	return "bad-op"
}

func hashEngine(c *Ctx) {
	if ls := replayLines(); ls != nil {
		for _, op := range ls {
			if strings.HasPrefix(op, "hash ") {
				c.Emit(op, hashExec(c, op))
			}
		}
		return
	}
	nSets, maxEnt, nSha := 60, 10, 300
	if c.Tier == "thorough" {
		nSets, maxEnt, nSha = 1500, 40, 5000
	}
	emit := func(op string) string {
		r := hashExec(c, op)
		c.Emit(op, r)
		return r
	}
	// SHA-384 / base58 of the driver vs Go (so that model wareIDs are comparable to real ones)
	for i := 0; i < nSha; i++ {
		n := c.Intn(300)
		if i < 260 {
			n = i
		}
		b := make([]byte, n)
		for j := range b {
			b[j] = byte(c.Rand())
		}
		if c.Chance(1, 4) {
			for j := 0; j < len(b) && j < c.Intn(4); j++ {
				b[j] = 0
			}
		}
		emit("hash sha " + hx(string(b)))
		if n <= 64 {
			emit("hash b58 " + hx(string(b)))
		}
	}
	// permanent corpus: iterator nesting is not directory nesting
	corpus := []Fileset{
		{{Name: "", Kind: 'd', Perms: 0755}, {Name: "etc", Kind: 'd', Perms: 0755}, {Name: "etc/trick", Kind: 'f', Content: []byte("x")}, {Name: "etc/tricky", Kind: 'f', Content: []byte("y")}, {Name: "etc/trick!", Kind: 'L', Link: "t"}},
		{{Name: "", Kind: 'd'}, {Name: "a", Kind: 'f'}, {Name: "a!", Kind: 'f'}, {Name: "a-d", Kind: 'd'}, {Name: "a-d/b", Kind: 'f'}, {Name: "ab", Kind: 'd'}},
		{{Name: "", Kind: 'd'}, {Name: "a", Kind: 'd'}, {Name: "a/b", Kind: 'f'}, {Name: "a!", Kind: 'f'}, {Name: "a b", Kind: 'd'}, {Name: "a b/c", Kind: 'L', Link: "zz"}},
		{{Name: "", Kind: 'd'}, {Name: "l", Kind: 'L', Link: "a"}},
		// arrival in plain path order is not the bucket's order: a directory sorts as name + "/"
		{{Name: "", Kind: 'd'}, {Name: "lib", Kind: 'd', Perms: 0755}, {Name: "lib.txt", Kind: 'f', Content: []byte("t")}, {Name: "lib0", Kind: 'f'}},
		{{Name: "", Kind: 'd'}, {Name: "a", Kind: 'd'}, {Name: "a!", Kind: 'f'}, {Name: "a.d", Kind: 'd'}, {Name: "a.d-", Kind: 'L', Link: "a"}, {Name: "a.d/x", Kind: 'f'}, {Name: "a/y", Kind: 'f'}},
		{{Name: "", Kind: 'd'}},
		{{Name: "", Kind: 'f', Content: []byte("rootfile")}},
		{{Name: "", Kind: 'L', Link: "x"}},
	}
	// deep nesting: any per-depth state (stacks, pools, fixed arrays) in the hasher shows only beyond its size
	deepChain := func(depth int) Fileset {
		f := Fileset{{Name: "", Kind: 'd', Perms: 0755}}
		p := ""
		for i := 0; i < depth; i++ {
			if p != "" {
				p += "/"
			}
			p += string([]byte{byte('a' + i%26)})
			f = append(f, Entry{Name: p, Kind: 'd', Perms: 0755})
			if i%7 == 3 {
				f = append(f, Entry{Name: p + "/side", Kind: 'f', Perms: 0644, Content: []byte{byte(i)}})
			}
		}
		f = append(f, Entry{Name: p + "/x", Kind: 'f', Perms: 0644, Content: []byte("x")}, Entry{Name: p + "/y", Kind: 'f', Perms: 0600, Content: []byte("y")})
		return f
	}
	deeps := []int{16, 21, 40}
	if c.Tier == "thorough" {
		deeps = []int{3, 15, 16, 17, 31, 32, 33, 64, 65, 130}
	}
	for _, d := range deeps {
		corpus = append(corpus, deepChain(d))
	}
	opts := GenOpts{MaxEntries: maxEnt, Kinds: "fffdLLpDc", SubSecond: true, FarTimes: true, BigIds: true, Setid: true, Xattrs: true, MaxContent: 200}
	for k := 0; k < nSets+len(corpus); k++ {
		var fsx Fileset
		if k < len(corpus) {
			fsx = corpus[k]
		} else {
			fsx = c.GenFileset(opts)
		}
		c.H(fmt.Sprintf("entries:%d", (len(fsx)+4)/5*5))
		for _, e := range fsx {
			c.H("kind:" + string([]byte{e.Kind}))
		}
		// --- C05: rio == independent reference, real SHA-384 + base58
		base := emit("hash bucket sha " + filesetRecs(fsx, ident(len(fsx)), sha384))
		ref := "ok " + misc.Base58Encode(RefTreeHash(fsx, sha384))
		if base != ref {
			c.PropFail("format", fmt.Sprintf("HashBucket %s != reference tree hash %s", base, ref), "hash bucket sha "+filesetRecs(fsx, ident(len(fsx)), sha384))
		}
		c.Distinct(base)
		// --- refinement: the Lean *specification* (recursive tree hash) vs the real HashBucket
		emit("hash spec sha " + treeTokens(fsx, sha384))
		emit("hash spec id " + treeTokens(fsx, idHash))
		// --- C01: any order of records gives the same answer
		pre := emit("hash bucket id " + filesetRecs(fsx, ident(len(fsx)), idHash))
		for s := 0; s < 3; s++ {
			order := c.perm(len(fsx))
			if s == 2 { // plain path order, the order a sorted directory walk or a sorted archive delivers
				order = ident(len(fsx))
				sort.SliceStable(order, func(i, j int) bool { return fsx[order[i]].Name < fsx[order[j]].Name })
			}
			op := "hash bucket id " + filesetRecs(fsx, order, idHash)
			if r := emit(op); r != pre {
				c.PropFail("order", "record order changed the hash", op)
			}
		}
		if want := "ok " + hx(string(RefTreeHash(fsx, idHash))); pre != want {
			c.PropFail("format", "pre-image differs from the reference serialization", "hash bucket id "+filesetRecs(fsx, ident(len(fsx)), idHash))
		}
		// --- C04: every single edit changes the pre-image (quick: a sample of the edits)
		edits := c.singleEdits(fsx)
		seenRes := map[string]string{}
		seenCls := map[string]string{}
		seenOp := map[string]string{}
		for ei, ed := range edits {
			if c.Tier != "thorough" && k >= len(corpus) && ei%3 != k%3 {
				continue
			}
			if len(fsx) > 45 && ei%9 != k%9 { // very deep chains: a ninth of the edits (each op carries the whole bucket)
				continue
			}
			op := "hash bucket id " + filesetRecs(ed.f, ident(len(ed.f)), idHash)
			r := emit(op)
			c.H("edit:" + ed.class)
			if r == pre && strings.HasPrefix(r, "ok") {
				if ed.class == "nonfiledir" {
					c.PropFail("nonfiledir-not-hashed", ed.desc+" does not change the tree hash", op)
				} else {
					c.PropFail("collision", ed.desc+" does not change the tree hash", op)
				}
			}
			if !strings.HasPrefix(r, "ok") {
				c.PropFail("edit-panic", ed.desc+" made a well-formed bucket panic: "+r, op)
			}
			// two different edits of the same fileset are two different filesets: they must not collide either
			if prev, dup := seenRes[r]; dup && strings.HasPrefix(r, "ok") && r != pre && seenOp[r] != op {
				if ed.class == "nonfiledir" && seenCls[r] == "nonfiledir" {
					c.PropFail("nonfiledir-not-hashed", ed.desc+" and "+prev+" give the same tree hash", op)
				} else {
					c.PropFail("collision", ed.desc+" and "+prev+" give the same tree hash", op)
				}
			} else {
				seenRes[r] = ed.desc
				seenCls[r] = ed.class
				seenOp[r] = op
			}
		}
	}
	// malformed buckets (the panics C17 is about); model must predict the same panic
	for k := 0; k < nSets; k++ {
		fsx := c.GenFileset(GenOpts{MaxEntries: 6, Kinds: "fdL"})
		order := c.perm(len(fsx))
		var toks []string
		for _, i := range order {
			e := fsx[i]
			raw := e.Name
			if raw == "" {
				raw = "."
			}
			roll := c.Intn(12)
			if e.Name == "" && !c.Chance(1, 6) {
				roll = 11
			}
			switch roll {
			case 0:
				continue // drop (missing parent / missing root)
			case 1:
				toks = append(toks, recTok(e, raw, nil)) // duplicate
			case 2:
				raw = "../" + raw
			case 3:
				raw = raw + "/../" + c.segment()
			case 4:
				raw = "./" + raw + "/"
			}
			toks = append(toks, recTok(e, raw, nil))
		}
		recs := "-"
		if len(toks) > 0 {
			recs = strings.Join(toks, ";")
		}
		r := emit("hash bucket id " + recs)
		c.H("malformed:" + strings.Fields(r)[0] + ":" + strings.Join(strings.Fields(r)[1:min(2, len(strings.Fields(r)))], ""))
	}
	_ = bytes.Equal
}

func min(a, b int) int {
	if a < b {
		return a
	}
	return b
}
