package main

import (
	"context"
	"fmt"
	"os"
	"path/filepath"
	"strings"
	"sync"

	api "github.com/polydawn/go-timeless-api"
	"github.com/polydawn/go-timeless-api/rio"
	"github.com/polydawn/rio/fs"
	"github.com/polydawn/rio/fs/osfs"
	"github.com/polydawn/rio/stitch"
	"github.com/polydawn/rio/stitch/placer"
	. "github.com/warpfork/go-errcat"
)

func init() { engines["asm15"] = asm15Engine }

type fakeJanitor struct {
	id     int
	always bool
	fail   bool
	log    *[]string
	mu     *sync.Mutex
}

func (j fakeJanitor) Description() string { return fmt.Sprintf("fake %d", j.id) }
func (j fakeJanitor) Teardown() error {
	j.mu.Lock()
	*j.log = append(*j.log, fmt.Sprintf("A%d", j.id))
	j.mu.Unlock()
	if j.fail {
		return Errorf(rio.ErrLocalCacheProblem, "injected teardown failure %d", j.id)
	}
	return nil
}
func (j fakeJanitor) AlwaysTry() bool { return j.always }

type asmPart struct {
	id                               int
	always, unpackF, parentF, placeF bool
	mount                            bool // a mount-type input (placed by BindPlacer directly) whose host source does not exist
	cancel                           bool // the caller's context is cancelled while this input is being placed (the placement succeeds)
}

// asm15Exec: recipe "asm15 <failing janitor ids|-> <id,alwaysTry,unpackF,parentF,placeF;...> <listing order>"
// Input i lives under /d<i>/ so that sorted order = id order; a failing parent step is provoked by a path
// whose parent chain runs through a regular file.
func asm15Exec(c *Ctx, op string) {
	f := strings.Fields(op)
	fails := map[int]bool{}
	if f[1] != "-" {
		for _, t := range strings.Split(f[1], ",") {
			var n int
			fmt.Sscan(t, &n)
			fails[n] = true
		}
	}
	var parts []asmPart
	for _, t := range strings.Split(f[2], ";") {
		x := strings.Split(t, ",")
		var id int
		fmt.Sscan(x[0], &id)
		parts = append(parts, asmPart{id, x[1] == "1", x[2] == "1", x[3] == "1", x[4] == "1" || x[4] == "2", x[4] == "2", x[4] == "3"})
	}
	var order []int
	for _, t := range strings.Split(f[3], ",") {
		var n int
		fmt.Sscan(t, &n)
		order = append(order, n)
	}
	caseCounter++
	base := filepath.Join(c.Work, fmt.Sprintf("as%d", caseCounter))
	defer rmrf(base)
	root := filepath.Join(base, "root")
	os.MkdirAll(root, 0755)
	var log []string
	var mu sync.Mutex
	var cancelRun func()
	byWare := map[string]asmPart{}
	byID := map[int]asmPart{}
	pathOf := func(p asmPart) string {
		if p.parentF {
			return fmt.Sprintf("/d%02d/blocker/sub/x", p.id)
		}
		return fmt.Sprintf("/d%02d/t", p.id)
	}
	for _, p := range parts {
		byID[p.id] = p
		os.MkdirAll(filepath.Join(root, fmt.Sprintf("d%02d", p.id)), 0755)
		os.WriteFile(filepath.Join(root, fmt.Sprintf("d%02d", p.id), "blocker"), []byte("x"), 0644)
	}
	unpackTool := func(ctx context.Context, wareID api.WareID, path string, filt api.FilesetUnpackFilter, mode rio.PlacementMode, wh []api.WarehouseLocation, mon rio.Monitor) (api.WareID, error) {
		p := byWare[wareID.Hash]
		if p.unpackF {
			return api.WareID{}, Errorf(rio.ErrWareNotFound, "injected unpack failure %d", p.id)
		}
		return wareID, nil
	}
	placerTool := func(src, dst fs.AbsolutePath, writable bool) (placer.Janitor, error) {
		var id int
		fmt.Sscanf(dst.String()[len(root):], "/d%02d/", &id)
		mu.Lock()
		log = append(log, fmt.Sprintf("X%d", id))
		mu.Unlock()
		p := byID[id]
		if p.placeF {
			return nil, Errorf(rio.ErrAssemblyInvalid, "injected placement failure %d", id)
		}
		if p.cancel {
			cancelRun()
		}
		return fakeJanitor{id: id, always: p.always, fail: fails[id], log: &log, mu: &mu}, nil
	}
	runCtx, cancelRun0 := context.WithCancel(context.Background())
	cancelRun = cancelRun0
	defer cancelRun0()
	asm := stitch.NewAssemblerForVerif(osfs.New(fs.MustAbsolutePath(filepath.Join(base, "cache"))), unpackTool, placerTool)
	var specs []stitch.UnpackSpec
	for _, i := range order {
		p := parts[i]
		h := fmt.Sprintf("hash%07d", p.id)
		byWare[h] = p
		if p.mount {
			specs = append(specs, stitch.UnpackSpec{Path: fs.MustAbsolutePath(pathOf(p)), WareID: api.WareID{Type: "mount", Hash: "rw:" + filepath.Join(base, "no-such-host-dir")}})
			continue
		}
		specs = append(specs, stitch.UnpackSpec{Path: fs.MustAbsolutePath(pathOf(p)), WareID: api.WareID{Type: "tar", Hash: h},
			Filters: api.FilesetUnpackFilter_Lossless})
	}
	var cleanup func() error
	var err error
	pan := ""
	func() {
		defer func() {
			if r := recover(); r != nil {
				pan = fmt.Sprint(r)
			}
		}()
		cleanup, err = asm.Run(runCtx, osfs.New(fs.MustAbsolutePath(root)), specs, fs.Metadata{Type: fs.Type_Dir, Perms: 0755, Mtime: fs.DefaultTime})
	}()
	res := "ok"
	if pan != "" {
		res = "panic"
		c.PropFail("asm-panic", pan, op)
	} else if err != nil {
		res = "failed"
	}
	runLog := append([]string(nil), log...)
	// a mount-type input is placed by placer.BindPlacer directly, not through the injected tool: when the run failed at
	// such an input, its placement attempt is entered into the event list where the tool would have logged it
	if res == "failed" {
		anyUF := false
		for _, p := range parts {
			anyUF = anyUF || p.unpackF
		}
		for _, p := range parts {
			if p.parentF || (p.placeF && !p.mount) {
				break
			}
			if p.mount && !anyUF {
				k := 0
				for k < len(runLog) && strings.HasPrefix(runLog[k], "X") {
					k++
				}
				runLog = append(runLog[:k:k], append([]string{fmt.Sprintf("X%d", p.id)}, runLog[k:]...)...)
				break
			}
		}
	}
	out := fmt.Sprintf("evs=%s res=%s", strings.Join(runLog, ","), res)
	var tdLog []string
	tdErr := false
	tdErrText := ""
	if res == "ok" {
		n0 := len(log)
		terr := cleanup()
		tdLog = append([]string(nil), log[n0:]...)
		tdErr = terr != nil
		if terr != nil {
			tdErrText = terr.Error()
		}
		// which failure is reported: the id the scripted janitor put into its error (the model's firstErr)
		tdTok := "false"
		if tdErr {
			tdTok = "?"
			if k := strings.Index(tdErrText, "injected teardown failure "); k >= 0 {
				var id int
				fmt.Sscan(tdErrText[k+len("injected teardown failure "):], &id)
				tdTok = fmt.Sprint(id)
			}
		}
		out += fmt.Sprintf(" td=%s tderr=%s", strings.Join(tdLog, ","), tdTok)
		// a caller that retries the teardown (say, after it failed) gets the same rule again: newest first, nothing
		// deleted after a failure — the scripted janitors answer as before
		n1 := len(log)
		cleanup()
		if again := strings.Join(log[n1:], ","); again != strings.Join(tdLog, ",") {
			c.PropFail("teardown-order", fmt.Sprintf("the teardown function called a second time ran %s; the first time (same janitors, same answers) it ran %s", again, strings.Join(tdLog, ",")), op)
		}
	}
	c.EmitR(op, "asm15 "+f[1]+" "+strings.ReplaceAll(strings.ReplaceAll(f[2], ",2", ",1"), ",3", ",0"), out)
	// ---- C15 oracle, written directly from the property statement (independent of the Lean model) ----
	// which inputs got placed before the first failing step
	var placed []asmPart
	failedAt := -1
	anyUnpackFail := false
	for _, p := range parts {
		if p.unpackF {
			anyUnpackFail = true
		}
	}
	if !anyUnpackFail {
		for i, p := range parts {
			if p.parentF || p.placeF {
				failedAt = i
				break
			}
			placed = append(placed, p)
		}
	}
	expectTeardown := func(js []asmPart) []string {
		var want []string
		failedYet := false
		for i := len(js) - 1; i >= 0; i-- {
			j := js[i]
			if failedYet && !j.always {
				continue // never delete after a failure
			}
			want = append(want, fmt.Sprintf("A%d", j.id))
			if fails[j.id] {
				failedYet = true
			}
		}
		return want
	}
	if !anyUnpackFail && failedAt < 0 && res == "failed" {
		var placedNow []asmPart
		var tds []string
		for _, e := range runLog {
			var id int
			if strings.HasPrefix(e, "X") {
				fmt.Sscanf(e, "X%d", &id)
				placedNow = append(placedNow, byID[id])
			} else if strings.HasPrefix(e, "A") {
				tds = append(tds, e)
			}
		}
		if want := expectTeardown(placedNow); strings.Join(tds, ",") != strings.Join(want, ",") {
			c.PropFail("no-rollback", fmt.Sprintf("the assembly failed (%v) after %d placements: teardown attempts %v, want %v", err, len(placedNow), tds, want), op)
		}
	}
	if anyUnpackFail {
		if res != "failed" || len(runLog) != 0 {
			c.PropFail("unpack-failure-not-clean", "an unpack failed but something was placed or the assembly succeeded", op)
		}
	} else if failedAt >= 0 {
		// rollback: after the failing step, teardown attempts of the placed ones, newest first
		var tds []string
		for _, e := range runLog {
			if strings.HasPrefix(e, "A") {
				tds = append(tds, e)
			}
		}
		want := expectTeardown(placed)
		if strings.Join(tds, ",") != strings.Join(want, ",") {
			cl := "no-rollback"
			if len(tds) > 0 {
				cl = "teardown-order"
			}
			c.PropFail(cl, fmt.Sprintf("step of input %d failed after %d placements: teardown attempts %v, want %v", parts[failedAt].id, len(placed), tds, want), op)
		}
		if res != "failed" {
			c.PropFail("no-rollback", "a failing step did not fail the assembly", op)
		}
	} else {
		want := expectTeardown(placed)
		if strings.Join(tdLog, ",") != strings.Join(want, ",") {
			cl := "teardown-order"
			// deleting after a failure is the dangerous one
			seen := map[string]bool{}
			for _, w := range want {
				seen[w] = true
			}
			for _, g := range tdLog {
				if !seen[g] {
					cl = "delete-after-failure"
				}
			}
			c.PropFail(cl, fmt.Sprintf("teardown attempts %v, want %v", tdLog, want), op)
		}
		anyFail := false
		for _, w := range want {
			var id int
			fmt.Sscanf(w, "A%d", &id)
			if fails[id] {
				anyFail = true
			}
		}
		if anyFail != tdErr {
			c.PropFail("teardown-error-lost", fmt.Sprintf("teardown error reported=%v but a janitor failed=%v", tdErr, anyFail), op)
		}
		// the first failure (in time: the newest failing placement among those attempted) is what is reported
		for _, w := range want {
			var id int
			fmt.Sscanf(w, "A%d", &id)
			if fails[id] {
				if tdErr && !strings.Contains(tdErrText, fmt.Sprintf("injected teardown failure %d", id)) {
					c.PropFail("teardown-error-lost", fmt.Sprintf("teardown attempted %v, the first step to fail was %d, the error reported is %q", want, id, tdErrText), op)
				}
				c.H("first-failure-checked")
				break
			}
		}
	}
	c.Distinct(op)
	c.H(fmt.Sprintf("n:%d", len(parts)))
	c.H("res:" + res)
}

// asm15Overlap: one Assembler value, two assemblies alive at the same time (a daemon serving two jobs): Run 1 (inputs
// 1..n1), Run 2 (inputs 11..), then the teardown of 1, then of 2 — in both orders. Each teardown tears down exactly its
// own placements, newest first. Recipe: "asm15-overlap <n1> <n2> <first torn down: 1|2>".
func asm15Overlap(c *Ctx, op string) {
	f := strings.Fields(op)
	n1, n2, first := 0, 0, 1
	fmt.Sscan(f[1], &n1)
	fmt.Sscan(f[2], &n2)
	fmt.Sscan(f[3], &first)
	caseCounter++
	base := filepath.Join(c.Work, fmt.Sprintf("ao%d", caseCounter))
	defer rmrf(base)
	var log []string
	var mu sync.Mutex
	unpackTool := func(ctx context.Context, wareID api.WareID, path string, filt api.FilesetUnpackFilter, mode rio.PlacementMode, wh []api.WarehouseLocation, mon rio.Monitor) (api.WareID, error) {
		return wareID, nil
	}
	placerTool := func(src, dst fs.AbsolutePath, writable bool) (placer.Janitor, error) {
		var tree, id int
		fmt.Sscanf(dst.String()[len(base):], "/tree%d/d%02d/", &tree, &id)
		return fakeJanitor{id: tree*10 + id, log: &log, mu: &mu}, nil
	}
	asm := stitch.NewAssemblerForVerif(osfs.New(fs.MustAbsolutePath(filepath.Join(base, "cache"))), unpackTool, placerTool)
	run := func(tree, n int) func() error {
		root := filepath.Join(base, fmt.Sprintf("tree%d", tree))
		var specs []stitch.UnpackSpec
		for i := 1; i <= n; i++ {
			os.MkdirAll(filepath.Join(root, fmt.Sprintf("d%02d", i)), 0755)
			specs = append(specs, stitch.UnpackSpec{Path: fs.MustAbsolutePath(fmt.Sprintf("/d%02d/t", i)), WareID: api.WareID{Type: "tar", Hash: fmt.Sprintf("hash%d%06d", tree, i)}, Filters: api.FilesetUnpackFilter_Lossless})
		}
		var cleanup func() error
		func() {
			defer func() { recover() }()
			cleanup, _ = asm.Run(context.Background(), osfs.New(fs.MustAbsolutePath(root)), specs, fs.Metadata{Type: fs.Type_Dir, Perms: 0755, Mtime: fs.DefaultTime})
		}()
		return cleanup
	}
	c1 := run(1, n1)
	c2 := run(2, n2)
	c.EmitR(op, "skip", "skip")
	if c1 == nil || c2 == nil {
		c.PropFail("asm-panic", "an assembly of a reused Assembler did not return a teardown function", op)
		return
	}
	want := func(tree, n int) string {
		var w []string
		for i := n; i >= 1; i-- {
			w = append(w, fmt.Sprintf("A%d", tree*10+i))
		}
		return strings.Join(w, " ")
	}
	td := func(tree int, cl func() error, n int) {
		mu.Lock()
		log = nil
		mu.Unlock()
		func() {
			defer func() { recover() }()
			cl()
		}()
		mu.Lock()
		got := strings.Join(log, " ")
		mu.Unlock()
		if got != want(tree, n) {
			c.PropFail("teardown-order", fmt.Sprintf("two assemblies made by one Assembler were alive together; the teardown of assembly %d ran [%s], its own placements newest-first are [%s]", tree, got, want(tree, n)), op)
		}
	}
	if first == 1 {
		td(1, c1, n1)
		td(2, c2, n2)
	} else {
		td(2, c2, n2)
		td(1, c1, n1)
	}
	c.H("asm15-overlap")
	c.Distinct(op)
}

func asm15Engine(c *Ctx) {
	if ls := replayLines(); ls != nil {
		for _, op := range ls {
			if strings.HasPrefix(op, "asm15 ") {
				asm15Exec(c, op)
			} else if strings.HasPrefix(op, "asm15-overlap ") {
				asm15Overlap(c, op)
			}
		}
		return
	}
	for _, v := range []string{"3 2 1", "3 2 2", "2 3 1", "1 1 1", "4 4 2", "1 3 2"} {
		asm15Overlap(c, "asm15-overlap "+v)
	}
	maxN := 3
	if c.Tier == "thorough" {
		maxN = 4
	}
	emit := func(n int, always, failstep, failidx int, tdmask int) {
		var ps []string
		for i := 0; i < n; i++ {
			u, p, x := "0", "0", "0"
			if i == failidx {
				switch failstep {
				case 1:
					u = "1"
				case 2:
					p = "1"
				case 3:
					x = "1"
				case 4:
					x = "2"
				case 5:
					x = "3"
				}
			}
			ps = append(ps, fmt.Sprintf("%d,%d,%s,%s,%s", i, (always>>uint(i))&1, u, p, x))
		}
		var fl []string
		for i := 0; i < n; i++ {
			if (tdmask>>uint(i))&1 == 1 {
				fl = append(fl, fmt.Sprint(i))
			}
		}
		fs := "-"
		if len(fl) > 0 {
			fs = strings.Join(fl, ",")
		}
		perm := c.perm(n)
		var os_ []string
		for _, x := range perm {
			os_ = append(os_, fmt.Sprint(x))
		}
		asm15Exec(c, fmt.Sprintf("asm15 %s %s %s", fs, strings.Join(ps, ";"), strings.Join(os_, ",")))
	}
	// exhaustive: n inputs x always-try mixes x (no failure | failing step kind x index) x failing-teardown subsets
	for n := 1; n <= maxN; n++ {
		for always := 0; always < 1<<uint(n); always++ {
			for tdmask := 0; tdmask < 1<<uint(n); tdmask++ {
				emit(n, always, 0, -1, tdmask)
				for step := 1; step <= 5; step++ {
					for idx := 0; idx < n; idx++ {
						emit(n, always, step, idx, tdmask)
					}
				}
			}
		}
	}
	// n = 5, sampled
	k := 60
	if c.Tier == "thorough" {
		k = 1500
	}
	for i := 0; i < k; i++ {
		step := c.Intn(6)
		idx := -1
		if step > 0 {
			idx = c.Intn(5)
		}
		emit(5, c.Intn(32), step, idx, c.Intn(32))
	}
	c.Extra["exhaustive_n"] = maxN
}
