package main

import (
	"crypto/sha512"
	"fmt"
	"os"
	"path/filepath"
	"sort"
	"strings"
	"syscall"

	"golang.org/x/sys/unix"
)

// Materialize creates the logical fileset at dir (which must not exist or be empty), with every
// attribute set explicitly; order = creation order of the non-root entries (nil = as listed).
func Materialize(f Fileset, dir string, order []int) error {
	root := f[0]
	if err := os.MkdirAll(dir, 0755); err != nil {
		return err
	}
	idx := make([]int, 0, len(f))
	if order == nil {
		for i := 1; i < len(f); i++ {
			idx = append(idx, i)
		}
	} else {
		idx = order
	}
	// creation must still put parents before children: stable-partition by depth
	sort.SliceStable(idx, func(a, b int) bool {
		return strings.Count(f[idx[a]].Name, "/") < strings.Count(f[idx[b]].Name, "/")
	})
	for _, i := range idx {
		e := f[i]
		p := filepath.Join(dir, e.Name)
		var err error
		switch e.Kind {
		case 'd':
			err = os.Mkdir(p, 0700)
		case 'f':
			err = os.WriteFile(p, e.Content, 0600)
		case 'L':
			err = os.Symlink(e.Link, p)
		case 'p':
			err = syscall.Mkfifo(p, 0600)
		case 'D':
			err = syscall.Mknod(p, syscall.S_IFBLK|0600, int(unix.Mkdev(uint32(e.Maj), uint32(e.Min))))
		case 'c':
			err = syscall.Mknod(p, syscall.S_IFCHR|0600, int(unix.Mkdev(uint32(e.Maj), uint32(e.Min))))
		default:
			err = fmt.Errorf("cannot materialize kind %c", e.Kind)
		}
		if err != nil {
			return fmt.Errorf("materialize %q: %v", e.Name, err)
		}
	}
	// attributes: chown first (clears setid), then chmod, then times, children before parents
	all := append([]int{}, idx...)
	all = append(all, 0)
	for k := 0; k < len(all); k++ {
		e := f[all[k]]
		p := filepath.Join(dir, e.Name)
		if err := os.Lchown(p, int(e.Uid), int(e.Gid)); err != nil {
			return err
		}
		if e.Kind != 'L' {
			if err := syscall.Chmod(p, uint32(e.Perms)&07777); err != nil {
				return err
			}
		}
	}
	_ = root
	// times: deepest first so that nothing disturbs a directory after its time is set
	sort.SliceStable(all, func(a, b int) bool {
		return strings.Count(f[all[a]].Name, "/") > strings.Count(f[all[b]].Name, "/") || (f[all[b]].Name == "" && f[all[a]].Name != "")
	})
	for _, i := range all {
		e := f[i]
		p := filepath.Join(dir, e.Name)
		ts := []unix.Timespec{{Sec: 1262304000, Nsec: 0}, {Sec: e.Sec, Nsec: int64(e.Nsec)}}
		if err := unix.UtimesNanoAt(unix.AT_FDCWD, p, ts, unix.AT_SYMLINK_NOFOLLOW); err != nil {
			return fmt.Errorf("utimes %q: %v", p, err)
		}
	}
	return nil
}

// Snapshot walks dir with raw lstat/readlink/read (no rio code) and returns the logical fileset found,
// sorted by name. Content is kept (small trees) so filesets can be compared and re-used.
func Snapshot(dir string) (Fileset, error) {
	var out Fileset
	var walk func(rel string) error
	walk = func(rel string) error {
		p := filepath.Join(dir, rel)
		var st unix.Stat_t
		if err := unix.Lstat(p, &st); err != nil {
			return err
		}
		e := Entry{Name: rel, Perms: uint16(st.Mode & 07777), Uid: st.Uid, Gid: st.Gid, Sec: st.Mtim.Sec, Nsec: int(st.Mtim.Nsec)}
		switch st.Mode & unix.S_IFMT {
		case unix.S_IFDIR:
			e.Kind = 'd'
		case unix.S_IFREG:
			e.Kind = 'f'
			b, err := os.ReadFile(p)
			if err != nil {
				return err
			}
			e.Content = b
		case unix.S_IFLNK:
			e.Kind = 'L'
			t, err := os.Readlink(p)
			if err != nil {
				return err
			}
			e.Link = t
		case unix.S_IFIFO:
			e.Kind = 'p'
		case unix.S_IFBLK:
			e.Kind = 'D'
			e.Maj, e.Min = int64(unix.Major(uint64(st.Rdev))), int64(unix.Minor(uint64(st.Rdev)))
		case unix.S_IFCHR:
			e.Kind = 'c'
			e.Maj, e.Min = int64(unix.Major(uint64(st.Rdev))), int64(unix.Minor(uint64(st.Rdev)))
		case unix.S_IFSOCK:
			e.Kind = 'S'
		}
		out = append(out, e)
		if e.Kind == 'd' {
			d, err := os.Open(p)
			if err != nil {
				return err
			}
			names, err := d.Readdirnames(-1)
			d.Close()
			if err != nil {
				return err
			}
			sort.Strings(names)
			for _, n := range names {
				sub := n
				if rel != "" {
					sub = rel + "/" + n
				}
				if err := walk(sub); err != nil {
					return err
				}
			}
		}
		return nil
	}
	if err := walk(""); err != nil {
		return nil, err
	}
	return out, nil
}

// Digest renders a fileset canonically (for equality and for evidence samples).
func (f Fileset) Digest(withDirMtime bool) string {
	g := f.clone()
	sort.Slice(g, func(a, b int) bool { return g[a].Name < g[b].Name })
	var sb strings.Builder
	for _, e := range g {
		sec, ns := e.Sec, e.Nsec
		if e.Kind == 'd' && !withDirMtime {
			sec, ns = 0, 0
		}
		perms := e.Perms
		if e.Kind == 'L' {
			perms = 0 // symlink permission bits are not settable on linux
		}
		h := sha512.Sum384(e.Content)
		fmt.Fprintf(&sb, "%s|%c|%o|%d|%d|%d.%09d|%s|%d,%d|%x\n", hx(e.Name), e.Kind, perms, e.Uid, e.Gid, sec, ns, hx(e.Link), e.Maj, e.Min, h[:6])
	}
	return sb.String()
}

// DiffFilesets describes the first differences (for property-oracle messages).
func DiffFilesets(want, got Fileset, withDirMtime bool) string {
	a := strings.Split(strings.TrimSpace(want.Digest(withDirMtime)), "\n")
	b := strings.Split(strings.TrimSpace(got.Digest(withDirMtime)), "\n")
	am, bm := map[string]string{}, map[string]string{}
	for _, l := range a {
		am[strings.SplitN(l, "|", 2)[0]] = l
	}
	for _, l := range b {
		bm[strings.SplitN(l, "|", 2)[0]] = l
	}
	var ds []string
	for k, v := range am {
		if w, ok := bm[k]; !ok {
			ds = append(ds, "missing "+unhx(k))
		} else if w != v {
			ds = append(ds, fmt.Sprintf("differs %q: want %s got %s", unhx(k), v, w))
		}
	}
	for k := range bm {
		if _, ok := am[k]; !ok {
			ds = append(ds, "extra "+unhx(k))
		}
	}
	sort.Strings(ds)
	if len(ds) > 3 {
		ds = ds[:3]
	}
	return strings.Join(ds, "; ")
}

func rmrf(p string) { os.RemoveAll(p) }

func syscallUnmount(p string) error { return syscall.Unmount(p, 0) }
