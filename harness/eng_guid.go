package main

import (
	"fmt"
	"sync"

	"github.com/polydawn/rio/lib/guid"
)

func init() { engines["guid"] = guidEngine }

// guid (C09): the cache's temp-dir names come from guid.New(); the model gives every unpacker a private temp dir.
// Stress: concurrent draws must never coincide (and never panic). A duplicate is a concrete schedule on which two
// unpackers share a temp dir.
func guidEngine(c *Ctx) {
	workers, per := 8, 60000
	if c.Tier == "thorough" {
		workers, per = 16, 400000
	}
	res := make([][]string, workers)
	var wg sync.WaitGroup
	var pmu sync.Mutex
	panics := ""
	for w := 0; w < workers; w++ {
		wg.Add(1)
		go func(w int) {
			defer wg.Done()
			defer func() {
				if r := recover(); r != nil {
					pmu.Lock()
					panics = fmt.Sprint(r)
					pmu.Unlock()
				}
			}()
			out := make([]string, 0, per)
			for i := 0; i < per; i++ {
				out = append(out, guid.New())
			}
			res[w] = out
		}(w)
	}
	wg.Wait()
	op := fmt.Sprintf("guid %d %d", workers, per)
	seen := make(map[string]int, workers*per)
	dups := 0
	example := ""
	for w, ids := range res {
		for _, id := range ids {
			if pw, ok := seen[id]; ok {
				dups++
				if example == "" {
					example = fmt.Sprintf("%q drawn by goroutines %d and %d", id, pw, w)
				}
			}
			seen[id] = w
		}
	}
	if panics != "" {
		c.PropFail("tmp-name-collision", "guid.New panicked under concurrent use: "+panics, op)
	}
	if dups > 0 {
		c.PropFail("tmp-name-collision", fmt.Sprintf("%d duplicate temp-dir names under concurrent use, e.g. %s", dups, example), op)
	}
	c.H(fmt.Sprintf("guid-draws:%d", workers*per))
	c.EmitR(op, "skip", "skip")
	c.Distinct(op)
}
