package main

import (
	"archive/tar"
	"archive/zip"
	"bytes"
	"context"
	"fmt"
	"os"
	"path/filepath"
	"runtime"
	"sort"
	"strconv"
	"strings"
	"sync"
	"syscall"
	"time"

	api "github.com/polydawn/go-timeless-api"
	"github.com/polydawn/go-timeless-api/rio"
	"github.com/polydawn/refmt/misc"
	"github.com/polydawn/rio/lib/verifhook"
	tartrans "github.com/polydawn/rio/transmat/tar"
)

func init() { engines["cache"] = cacheEngine }

func goid() int {
	var buf [64]byte
	n := runtime.Stack(buf[:], false)
	f := strings.Fields(string(buf[:n]))
	id, _ := strconv.Atoi(f[1])
	return id
}

// barrier scheduler over the cache.* instrumentation points
type sched struct {
	mu      sync.Mutex
	procs   map[int]*sproc // goroutine id -> proc
	blocked chan int       // pid that just blocked or finished
}
type sproc struct {
	pid      int
	release  chan struct{}
	at       string
	finished bool
	res      string
	tmpLeft  string
}

func (s *sched) handler(name string, detail []string) error {
	if !strings.HasPrefix(name, "cache.") {
		return nil
	}
	s.mu.Lock()
	p := s.procs[goid()]
	s.mu.Unlock()
	if p == nil {
		return nil
	}
	p.at = name
	s.blocked <- p.pid
	<-p.release
	return nil
}

type cacheWare struct {
	name    string // short token used in the model (w0, w1, …)
	id      api.WareID
	fileset Fileset
	cond    string // ok | missing | corrupt | mismatch
}

type cacheProc struct {
	ware   int
	filter string
	mode   string
}

// cacheExec: recipe "cache <seedcase> <nwares> <procs: ware,filter,mode;...> <sched: pid,...> <pre-shelved: ware,...|->"
// wares are generated from the seedcase number (deterministic), so the recipe is self-contained.
func cacheExec(c *Ctx, op string) {
	f := strings.Fields(op)
	var caseSeed uint64
	fmt.Sscan(f[1], &caseSeed)
	nw, _ := strconv.Atoi(f[2])
	var procs []cacheProc
	for _, t := range strings.Split(f[3], ";") {
		p := strings.Split(t, ",")
		w, _ := strconv.Atoi(p[0])
		procs = append(procs, cacheProc{w, strings.ReplaceAll(p[1], "+", ","), p[2]})
	}
	var schedule []int
	if f[4] != "-" {
		for _, t := range strings.Split(f[4], ",") {
			n, _ := strconv.Atoi(t)
			schedule = append(schedule, n)
		}
	}
	var preShelved []int
	if f[5] != "-" {
		for _, t := range strings.Split(f[5], ",") {
			n, _ := strconv.Atoi(t)
			preShelved = append(preShelved, n)
		}
	}
	caseCounter++
	base := filepath.Join(c.Work, fmt.Sprintf("ca%d", caseCounter))
	defer rmrf(base)
	whDir, cache := filepath.Join(base, "wh"), filepath.Join(base, "cache")
	os.MkdirAll(whDir, 0755)
	os.Setenv("RIO_CACHE", cache)
	os.Setenv("RIO_BASE", filepath.Join(base, "riobase"))
	ctx := context.Background()
	pf := api.MustParseFilesetPackFilter(losslessPackStr)
	// deterministic wares from the case seed
	g := &Ctx{rng: caseSeed*0x9e3779b97f4a7c15 + 99, Hist: map[string]int{}, seen: map[string]struct{}{}}
	conds := []string{"ok", "ok", "ok", "missing", "corrupt", "mismatch"}
	var wares []cacheWare
	for i := 0; i < nw; i++ {
		fsx := g.GenFileset(GenOpts{MaxEntries: 5, Kinds: "ffdL", MaxContent: 300})
		sanitizeForRoundtrip(fsx, "tar")
		// every ware carries a setuid file (for reject filters) owned by a foreign uid (so uid filters alter it)
		fsx = append(fsx, Entry{Name: fmt.Sprintf("suid%d", i), Kind: 'f', Perms: 04755, Uid: 4000 + uint32(i), Gid: 4000, Sec: 1e9, Content: []byte{byte(i)}})
		// … and one with the setgid bit alone (a chown clears it on a non-directory: it has to be set again afterwards)
		fsx = append(fsx, Entry{Name: fmt.Sprintf("sgid%d", i), Kind: 'f', Perms: 02755, Uid: 4000 + uint32(i), Gid: 4000, Sec: 1e9, Content: []byte{byte(i), 1}})
		// … and the `su root:wheel` shapes: setuid with the unpacker's own uid and a foreign gid, setgid with its own gid and
		// a foreign uid (any chown clears both bits, whichever id it changed)
		fsx = append(fsx, Entry{Name: fmt.Sprintf("su%d", i), Kind: 'f', Perms: 04755, Uid: uint32(os.Getuid()), Gid: 50, Sec: 1e9, Content: []byte{byte(i), 2}})
		fsx = append(fsx, Entry{Name: fmt.Sprintf("wall%d", i), Kind: 'f', Perms: 02755, Uid: 60, Gid: uint32(os.Getgid()), Sec: 1e9, Content: []byte{byte(i), 3}})
		src := filepath.Join(base, fmt.Sprintf("src%d", i))
		if err := Materialize(fsx, src, nil); err != nil {
			c.EmitR(op, "skip", "skip")
			return
		}
		id, err := tartrans.Pack(ctx, "tar", src, pf, whAddr("ca", whDir), rio.Monitor{})
		if err != nil {
			c.EmitR(op, "skip", "skip")
			return
		}
		w := cacheWare{name: fmt.Sprintf("w%d", i), id: id, fileset: truncateForFormat(fsx), cond: conds[int(g.Rand()%uint64(len(conds)))]}
		if i == 0 {
			w.cond = "ok"
		}
		wares = append(wares, w)
	}
	for i, w := range wares {
		p := storedWarePath("ca", whDir, w.id)
		switch w.cond {
		case "missing":
			os.Remove(p)
		case "corrupt":
			os.WriteFile(p, []byte("this is not a tar at all, not even close............"), 0644)
		case "mismatch":
			b, _ := os.ReadFile(storedWarePath("ca", whDir, wares[0].id))
			if i == 0 {
				b = []byte{}
			}
			os.WriteFile(p, b, 0644)
		}
	}
	wh := []api.WarehouseLocation{whAddr("ca", whDir)}
	// the unpack tool's answer per process (the model's `yield`): a direct unpack into a scratch dir, empty cache
	type yield struct {
		ok  bool
		rid string
		cat string
	}
	yields := make([]yield, len(procs))
	ridNames := map[string]string{} // real hash -> model token
	for _, w := range wares {
		ridNames[w.id.Hash] = w.name
	}
	for i, p := range procs {
		os.Setenv("RIO_CACHE", filepath.Join(base, fmt.Sprintf("probecache%d", i)))
		uf := api.MustParseFilesetUnpackFilter(p.filter)
		id, err, pan := safeCall(func() (api.WareID, error) {
			return tartrans.Unpack(ctx, wares[p.ware].id, filepath.Join(base, fmt.Sprintf("probe%d", i)), uf, rio.Placement_Direct, wh, rio.Monitor{})
		})
		switch {
		case pan != "":
			yields[i] = yield{cat: "panic"}
		case err != nil:
			yields[i] = yield{cat: catOf(err)}
		default:
			if _, ok := ridNames[id.Hash]; !ok {
				ridNames[id.Hash] = fmt.Sprintf("f%d", len(ridNames))
			}
			yields[i] = yield{ok: true, rid: id.Hash}
		}
		rmrf(filepath.Join(base, fmt.Sprintf("probe%d", i)))
	}
	os.Setenv("RIO_CACHE", cache)
	// pre-shelved wares: unpack once with lossless filters, placement none
	var shelvedToks []string
	for _, wi := range preShelved {
		if wares[wi].cond != "ok" {
			continue
		}
		uf := api.MustParseFilesetUnpackFilter(losslessUnpackStr)
		if _, err := tartrans.Unpack(ctx, wares[wi].id, "-", uf, rio.Placement_None, wh, rio.Monitor{}); err == nil {
			shelvedToks = append(shelvedToks, wares[wi].name)
		}
	}
	// model op
	var ptoks []string
	for i, p := range procs {
		uf := api.MustParseFilesetUnpackFilter(p.filter)
		alt := "0"
		if uf.Altering() {
			alt = "1"
		}
		y := "err," + yields[i].cat
		if yields[i].ok {
			y = "ok," + ridNames[yields[i].rid]
		}
		ptoks = append(ptoks, fmt.Sprintf("%s,%s,%s,%s", wares[p.ware].name, alt, p.mode, y))
	}
	shTok := "-"
	if len(shelvedToks) > 0 {
		shTok = strings.Join(shelvedToks, ",")
	}
	// ---- run the real thing under the barrier scheduler
	sc := &sched{procs: map[int]*sproc{}, blocked: make(chan int, 64)}
	verifhook.Set(sc.handler)
	defer verifhook.Set(nil)
	sps := make([]*sproc, len(procs))
	dsts := make([]string, len(procs))
	for i, p := range procs {
		sp := &sproc{pid: i, release: make(chan struct{})}
		sps[i] = sp
		dsts[i] = filepath.Join(base, fmt.Sprintf("dst%d", i))
		started := make(chan struct{})
		go func(i int, p cacheProc, sp *sproc) {
			sc.mu.Lock()
			sc.procs[goid()] = sp
			sc.mu.Unlock()
			close(started)
			uf := api.MustParseFilesetUnpackFilter(p.filter)
			id, err, pan := safeCall(func() (api.WareID, error) {
				return tartrans.Unpack(ctx, wares[p.ware].id, dsts[i], uf, rio.PlacementMode(p.mode), wh, rio.Monitor{})
			})
			// the moment the call returns: a failed (or mismatching, or cancelled) unpack leaves no temp directory
			if err != nil || pan != "" {
				if ents, e := os.ReadDir(cache); e == nil {
					running := 0
					for _, q := range sps {
						if q != nil && !q.finished && q != sp {
							running++
						}
					}
					left := 0
					for _, d := range ents {
						if strings.HasPrefix(d.Name(), ".tmp.unpack.") {
							left++
						}
					}
					if left > running {
						sp.tmpLeft = fmt.Sprintf("%d temp dir(s) in the cache at the moment a failed unpack returned, %d other unpacker(s) still running", left, running)
					}
				}
			}
			switch {
			case pan != "":
				sp.res = "panic:" + pan
			case err != nil:
				sp.res = "err:" + catOf(err)
			default:
				nm, ok := ridNames[id.Hash]
				if !ok {
					nm = "unknown-" + id.Hash[:6]
				}
				sp.res = "ok:" + nm
			}
			sp.finished = true
			sc.blocked <- sp.pid
		}(i, p, sp)
		<-started
		// wait until it blocks at its first point (cache.lookup) or finishes (usage errors)
		waitFor(sc, sp)
	}
	// a committed shelf is never deleted or replaced: its directory object stays the same from the moment it is visible
	shelfIno := map[string]uint64{}
	watchShelves := func(when string) {
		now := map[string]uint64{}
		ms, _ := filepath.Glob(filepath.Join(cache, "*", "fileset", "*", "*", "*"))
		for _, m := range ms {
			var st syscall.Stat_t
			if syscall.Lstat(m, &st) == nil {
				now[m] = st.Ino
			}
		}
		for m, ino := range shelfIno {
			if n, ok := now[m]; !ok {
				c.PropFail("shelf-replaced", fmt.Sprintf("a committed shelf disappeared %s: %s", when, strings.TrimPrefix(m, cache)), op)
			} else if n != ino {
				c.PropFail("shelf-replaced", fmt.Sprintf("a committed shelf was deleted and replaced by another directory %s (a crash in between leaves a partial or no shelf, a reader in between sees one): %s", when, strings.TrimPrefix(m, cache)), op)
			}
		}
		for m, n := range now {
			shelfIno[m] = n
		}
	}
	watchShelves("before the run")
	var modelSched []string
	step := func(pid int) {
		defer watchShelves(fmt.Sprintf("during a step of unpacker %d", pid))
		sp := sps[pid]
		modelSched = append(modelSched, fmt.Sprint(pid))
		if sp.finished {
			return
		}
		if sp.at == "cache.populate.tmp" {
			// the segment "run the unpack tool" is two model steps (create temp dir; finish), the middle
			// state being where a crash inside the tool would leave things
			modelSched = append(modelSched, fmt.Sprint(pid))
		}
		sp.release <- struct{}{}
		waitFor(sc, sp)
	}
	for _, pid := range schedule {
		if pid < len(sps) {
			step(pid)
		}
	}
	// observe
	var outs []string
	crashed := 0
	for _, sp := range sps {
		if sp.finished {
			outs = append(outs, sp.res)
		} else {
			outs = append(outs, "blocked")
			crashed++
		}
	}
	shelves, tmps := observeCache(c, cache, wares, ridNames, op)
	ms := "-"
	if len(modelSched) > 0 {
		ms = strings.Join(modelSched, ",")
	}
	modelOp := fmt.Sprintf("cache %s %s %s", shTok, strings.Join(ptoks, ";"), ms)
	res := fmt.Sprintf("outs=%s shelves=%s tmps=%d", strings.Join(outs, ","), strings.Join(shelves, ","), tmps)
	c.EmitR(op, modelOp, res)
	// ---- property oracle (C09), independent of the model
	for _, s := range shelves {
		if !strings.HasSuffix(s, "=ok") {
			c.PropFail("shelf-not-verified", "a shelf does not hold exactly the fileset it is named after: "+s, op)
		}
	}
	for _, sp := range sps {
		if sp.tmpLeft != "" {
			c.PropFail("cache-temp-left", sp.tmpLeft, op)
		}
	}
	if tmps > crashed {
		c.PropFail("cache-temp-left", fmt.Sprintf("%d temp dirs left but only %d processes are stopped mid-way", tmps, crashed), op)
	}
	for i, sp := range sps {
		if !sp.finished {
			continue
		}
		p := procs[i]
		w := wares[p.ware]
		uf := api.MustParseFilesetUnpackFilter(p.filter)
		rejecting := strings.Contains(p.filter, "setid=reject")
		switch {
		case strings.HasPrefix(sp.res, "panic"):
			c.PropFail("cache-panic", sp.res, op)
		case w.cond == "ok" && rejecting && strings.HasPrefix(sp.res, "ok"):
			c.PropFail("filter-warm-cache", "setid=reject succeeded on a ware holding a setuid file because the fileset cache already had the ware", op)
		case w.cond == "ok" && !rejecting && !strings.HasPrefix(sp.res, "ok"):
			c.PropFail("concurrent-unpack-failed", fmt.Sprintf("unpack %d of a good ware failed: %s", i, sp.res), op)
		case w.cond != "ok" && strings.HasPrefix(sp.res, "ok"):
			c.PropFail("bad-ware-accepted", fmt.Sprintf("unpack %d of a %s ware succeeded", i, w.cond), op)
		}
		// what was delivered must be the (filtered) fileset it reports
		if strings.HasPrefix(sp.res, "ok") && p.mode != "none" && !rejecting {
			want := Fileset{}
			for _, e := range w.fileset {
				x, _, drop := specFilter("unpack", p.filter, e, uint32(os.Getuid()), uint32(os.Getgid()))
				if !drop {
					want = append(want, x)
				}
			}
			got, err := Snapshot(dsts[i])
			if err != nil {
				c.PropFail("placement-tree", "cannot walk destination: "+err.Error(), op)
			} else if got.Digest(true) != want.Digest(true) {
				cl := "placement-tree"
				if uf.Altering() {
					cl = "filter-attr"
				}
				c.PropFail(cl, fmt.Sprintf("unpack %d (%s, %s) delivered another fileset than it reports: %s", i, p.mode, p.filter, DiffFilesets(want, got, true)), op)
			}
		}
		if p.mode == "mount" {
			syscall.Unmount(dsts[i], 0)
		}
	}
	// abandon the blocked goroutines (crashed processes): let them run to completion in the background, ignoring hooks
	verifhook.Set(nil)
	for _, sp := range sps {
		if !sp.finished {
			go func(sp *sproc) {
				for !sp.finished {
					select {
					case sp.release <- struct{}{}:
					case <-sc.blocked:
					case <-time.After(50 * time.Millisecond):
					}
				}
			}(sp)
		}
	}
	deadline := time.Now().Add(3 * time.Second)
	for _, sp := range sps {
		for !sp.finished && time.Now().Before(deadline) {
			time.Sleep(5 * time.Millisecond)
		}
	}
	for i, p := range procs {
		if p.mode == "mount" {
			syscall.Unmount(dsts[i], 0)
		}
	}
	c.H(fmt.Sprintf("procs:%d", len(procs)))
	c.H(fmt.Sprintf("crashed:%d", crashed))
	for _, o := range outs {
		c.H("out:" + strings.SplitN(o, ":", 2)[0])
	}
	c.Distinct(modelOp)
}

func waitFor(sc *sched, sp *sproc) {
	for {
		pid := <-sc.blocked
		if pid == sp.pid {
			return
		}
		// another goroutine reported (cannot happen while it is not released) — ignore
	}
}

// observeCache lists shelves (with an independent verdict on their content) and counts temp dirs.
func observeCache(c *Ctx, cache string, wares []cacheWare, ridNames map[string]string, op string) ([]string, int) {
	var shelves []string
	tmps := 0
	if ents, err := os.ReadDir(cache); err == nil {
		for _, d := range ents {
			if strings.HasPrefix(d.Name(), ".tmp.unpack.") {
				tmps++
			}
		}
	}
	root := filepath.Join(cache, "tar", "fileset")
	l1, _ := os.ReadDir(root)
	for _, a := range l1 {
		l2, _ := os.ReadDir(filepath.Join(root, a.Name()))
		for _, b := range l2 {
			l3, _ := os.ReadDir(filepath.Join(root, a.Name(), b.Name()))
			for _, h := range l3 {
				dir := filepath.Join(root, a.Name(), b.Name(), h.Name())
				// a shelf keyed "<hash>+<filter>" holds the filtered tree of a ware whose unpack reported the unfiltered id; the
				// wares of this engine carry nothing such a filter (dev=ignore) drops, so the tree is the ware itself
				hashPart, keyed := h.Name(), ""
				if k := strings.IndexByte(hashPart, '+'); k >= 0 {
					hashPart, keyed = hashPart[:k], "+"
				}
				nm, ok := ridNames[hashPart]
				if !ok {
					nm = "unknown-" + hashPart
				}
				nm += keyed
				got, err := Snapshot(dir)
				verdict := "=partial"
				if err == nil {
					// independent: reference tree hash of what the shelf holds
					if b58(RefTreeHash(rootFirst(got), sha384)) == hashPart {
						verdict = "=ok"
					} else {
						verdict = "=other"
					}
				}
				shelves = append(shelves, nm+verdict)
			}
		}
	}
	sort.Strings(shelves)
	return shelves, tmps
}

func rootFirst(f Fileset) Fileset {
	g := f.clone()
	for i := range g {
		if g[i].Name == "" {
			g[0], g[i] = g[i], g[0]
		}
	}
	return g
}

func b58(b []byte) string { return misc.Base58Encode(b) }

func cacheEngine(c *Ctx) {
	if ls := replayLines(); ls != nil {
		for _, op := range ls {
			if strings.HasPrefix(op, "cache ") {
				cacheExec(c, op)
			} else if strings.HasPrefix(op, "cache-foreign ") {
				cacheForeignOrder(c, op)
			} else if strings.HasPrefix(op, "cache-keyedlookup ") {
				cacheKeyedLookup(c, op)
			} else if strings.HasPrefix(op, "cache-rejectsame ") {
				cacheRejectSame(c, op)
			} else if strings.HasPrefix(op, "cache-foreignfilter ") {
				cacheForeignFilter(c, op)
			} else if strings.HasPrefix(op, "cache-commitfails ") {
				cacheCommitFails(c, op)
			}
		}
		return
	}
	for k := 0; k < 3; k++ {
		cacheForeignOrder(c, fmt.Sprintf("cache-foreign %d", k))
	}
	for i, how := range []string{"dangling", "dangling2", "readonly", "dangling", "readonly", "dangling2", "xdev", "xdev"} {
		cacheCommitFails(c, fmt.Sprintf("cache-commitfails %s %s %s", []string{"tar", "zip"}[i%2], how, []string{"none", "copy", "mount", "copy", "none", "none", "none", "copy"}[i]))
	}
	cacheKeyedLookup(c, "cache-keyedlookup tar")
	cacheForeignFilter(c, "cache-foreignfilter tar")
	cacheForeignFilter(c, "cache-foreignfilter zip")
	for k := 0; k < 4; k++ {
		cacheRejectSame(c, fmt.Sprintf("cache-rejectsame %d", k))
	}
	cacheKeyedLookup(c, "cache-keyedlookup zip")
	n := 25
	if c.Tier == "thorough" {
		n = 400
	}
	filters := []string{losslessUnpackStr, losslessUnpackStr, losslessUnpackStr,
		"uid=7,gid=follow,mtime=follow,sticky=follow,setid=follow,dev=follow",
		"uid=mine,gid=mine,mtime=follow,sticky=follow,setid=follow,dev=follow",
		"uid=follow,gid=follow,mtime=@86400,sticky=follow,setid=ignore,dev=follow",
		"uid=follow,gid=follow,mtime=follow,sticky=follow,setid=reject,dev=follow"}
	modes := []string{"direct", "copy", "none", "mount", "copy", "none"}
	for k := 0; k < n; k++ {
		nw := 1 + c.Intn(3)
		np := 2 + c.Intn(3)
		var ps []string
		for i := 0; i < np; i++ {
			w := c.Intn(nw)
			if c.Chance(1, 2) {
				w = 0 // contention on the same ware
			}
			ps = append(ps, fmt.Sprintf("%d,%s,%s", w, strings.ReplaceAll(filters[c.Intn(len(filters))], ",", "+"), modes[c.Intn(len(modes))]))
		}
		// schedule: random interleaving; with probability 1/3 some process stops being scheduled (crash)
		crashedPid := -1
		if c.Chance(1, 3) {
			crashedPid = c.Intn(np)
		}
		var sch []string
		for s := 0; s < np*8; s++ {
			pid := c.Intn(np)
			if pid == crashedPid && s > c.Intn(np*4) {
				continue
			}
			sch = append(sch, fmt.Sprint(pid))
		}
		for r := 0; r < 8; r++ { // completion round for the others
			for pid := 0; pid < np; pid++ {
				if pid != crashedPid {
					sch = append(sch, fmt.Sprint(pid))
				}
			}
		}
		pre := "-"
		if c.Chance(1, 3) {
			pre = fmt.Sprint(c.Intn(nw))
		}
		cacheExec(c, fmt.Sprintf("cache %d %d %s %s %s", c.Rand()%1000000, nw, strings.Join(ps, ";"), strings.Join(sch, ","), pre))
	}
	// an altering filter that leaves the id alone (dev=ignore): its tree is shelved under a key of its own, never on the
	// shelf a lossless request is served from; both orders, a race of two such requests, and a pre-shelved ware
	devIgn := "uid=follow+gid=follow+mtime=follow+sticky=follow+setid=follow+dev=ignore"
	ll := strings.ReplaceAll(losslessUnpackStr, ",", "+")
	seq := func(np int) string {
		var sch []string
		for pid := 0; pid < np; pid++ {
			for r := 0; r < 10; r++ {
				sch = append(sch, fmt.Sprint(pid))
			}
		}
		return strings.Join(sch, ",")
	}
	rr := func(np int) string {
		var sch []string
		for r := 0; r < 10; r++ {
			for pid := 0; pid < np; pid++ {
				sch = append(sch, fmt.Sprint(pid))
			}
		}
		return strings.Join(sch, ",")
	}
	cacheExec(c, fmt.Sprintf("cache 901 1 0,%s,copy;0,%s,copy %s -", devIgn, ll, seq(2)))
	cacheExec(c, fmt.Sprintf("cache 902 1 0,%s,copy;0,%s,none %s -", ll, devIgn, seq(2)))
	cacheExec(c, fmt.Sprintf("cache 903 1 0,%s,none;0,%s,copy;0,%s,copy %s -", devIgn, devIgn, ll, rr(3)))
	cacheExec(c, fmt.Sprintf("cache 904 2 0,%s,copy;1,%s,mount;0,%s,copy %s 0", devIgn, devIgn, devIgn, rr(3)))
}

// cacheKeyedLookup: every directory below <cache>/<type>/fileset/x/y/ is a shelf some request can name. After unpacks with
// every kind of filter, a lossless request naming any shelf directory that is not a ware id this run verified — no
// warehouse is given, so nothing can be fetched or checked — must not be answered from the cache.
// Recipe: "cache-keyedlookup <tar|zip>".
func cacheKeyedLookup(c *Ctx, op string) {
	c.Begin(op)
	fmtName := strings.Fields(op)[1]
	caseCounter++
	base := filepath.Join(c.Work, fmt.Sprintf("ckl%d", caseCounter))
	defer rmrf(base)
	src, wh, cache := filepath.Join(base, "src"), filepath.Join(base, "wh"), filepath.Join(base, "cache")
	os.MkdirAll(filepath.Join(src, "d"), 0755)
	os.MkdirAll(wh, 0755)
	os.WriteFile(filepath.Join(src, "d", "f"), []byte("content "+op), 0644)
	for _, p := range []string{"d/f", "d", "."} {
		os.Chtimes(filepath.Join(src, p), time.Unix(1e9, 0), time.Unix(1e9, 0))
	}
	os.Setenv("RIO_CACHE", cache)
	os.Setenv("RIO_BASE", filepath.Join(base, "riobase"))
	ctx := context.Background()
	fn := funcsFor(fmtName)
	c.EmitR(op, "skip", "skip")
	id, err := fn.pack(ctx, api.PackType(fmtName), src, api.MustParseFilesetPackFilter(losslessPackStr), whAddr("ca", wh), rio.Monitor{})
	if err != nil {
		return
	}
	verified := map[string]bool{}
	for _, fl := range []string{losslessUnpackStr,
		"uid=follow,gid=follow,mtime=follow,sticky=follow,setid=follow,dev=ignore",
		"uid=follow,gid=follow,mtime=follow,sticky=ignore,setid=ignore,dev=ignore",
		"uid=0,gid=0,mtime=follow,sticky=follow,setid=follow,dev=follow",
		"uid=follow,gid=follow,mtime=@86400,sticky=follow,setid=follow,dev=follow"} {
		got, uerr, _ := safeCall(func() (api.WareID, error) {
			return fn.unpack(ctx, id, "-", api.MustParseFilesetUnpackFilter(fl), rio.Placement_None, []api.WarehouseLocation{whAddr("ca", wh)}, rio.Monitor{})
		})
		if uerr == nil {
			verified[got.Hash] = true
		}
	}
	ms, _ := filepath.Glob(filepath.Join(cache, fmtName, "fileset", "*", "*", "*"))
	c.H(fmt.Sprintf("cache-keyedlookup:%s:shelves=%d", fmtName, len(ms)))
	for _, m := range ms {
		name := filepath.Base(m)
		if verified[name] {
			continue
		}
		dst := filepath.Join(base, "out")
		got, uerr, pan := safeCall(func() (api.WareID, error) {
			return fn.unpack(ctx, api.WareID{Type: api.PackType(fmtName), Hash: name}, dst, api.MustParseFilesetUnpackFilter(losslessUnpackStr), rio.Placement_Copy, nil, rio.Monitor{})
		})
		rmrf(dst)
		if pan != "" {
			c.PropFail("cache-panic", "a request spelled like a shelf directory panicked: "+pan, op)
		} else if uerr == nil {
			c.PropFail("shelf-not-verified", fmt.Sprintf("a lossless request for %q — not the id of any fileset, nothing was fetched or hashed, no warehouse given — was answered %s from the shelf of a filtered tree", name, got), op)
		}
	}
}

// cacheRejectSame: hand-written archives whose headers claim what no file system materialises or what only some entry
// kinds carry (setuid bits on a symlink, on a directory, on a fifo; a device) — the verdict of every reject setting is the
// same on a cold cache, on a cache warmed by a lossless unpack, and for direct placement. Recipe: "cache-rejectsame <k>".
func cacheRejectSame(c *Ctx, op string) {
	c.Begin(op)
	k := 0
	fmt.Sscan(strings.Fields(op)[1], &k)
	caseCounter++
	base := filepath.Join(c.Work, fmt.Sprintf("crs%d", caseCounter))
	defer rmrf(base)
	os.MkdirAll(base, 0755)
	var buf bytes.Buffer
	tw := tar.NewWriter(&buf)
	t0 := time.Unix(1e9, 0)
	tw.WriteHeader(&tar.Header{Name: "./", Typeflag: tar.TypeDir, Mode: 0755, ModTime: t0})
	switch k % 4 {
	case 0:
		tw.WriteHeader(&tar.Header{Name: "./lnk", Typeflag: tar.TypeSymlink, Linkname: "target", Mode: 04777, ModTime: t0})
	case 1:
		tw.WriteHeader(&tar.Header{Name: "./lnk", Typeflag: tar.TypeSymlink, Linkname: "target", Mode: 02777, ModTime: t0})
		tw.WriteHeader(&tar.Header{Name: "./plain", Typeflag: tar.TypeReg, Mode: 0644, ModTime: t0})
	case 2:
		tw.WriteHeader(&tar.Header{Name: "./sgdir/", Typeflag: tar.TypeDir, Mode: 02755, ModTime: t0})
	case 3:
		tw.WriteHeader(&tar.Header{Name: "./pipe", Typeflag: tar.TypeFifo, Mode: 04644, ModTime: t0})
	}
	tw.Close()
	ware := filepath.Join(base, "w.tar")
	os.WriteFile(ware, buf.Bytes(), 0644)
	wh := []api.WarehouseLocation{api.WarehouseLocation("file://" + ware)}
	ctx := context.Background()
	c.EmitR(op, "skip", "skip")
	id, err, _ := safeCall(func() (api.WareID, error) {
		return tartrans.Scan(ctx, "tar", api.MustParseFilesetUnpackFilter(losslessUnpackStr), rio.Placement_None, wh[0], rio.Monitor{})
	})
	if err != nil {
		return
	}
	for _, fl := range []string{"uid=follow,gid=follow,mtime=follow,sticky=follow,setid=reject,dev=follow", "uid=follow,gid=follow,mtime=follow,sticky=follow,setid=follow,dev=reject"} {
		verdict := func(cache string, mode rio.PlacementMode, n int) string {
			os.Setenv("RIO_CACHE", cache)
			_, e, pan := safeCall(func() (api.WareID, error) {
				return tartrans.Unpack(ctx, id, filepath.Join(base, fmt.Sprintf("d%d", n)), api.MustParseFilesetUnpackFilter(fl), mode, wh, rio.Monitor{})
			})
			rmrf(filepath.Join(base, fmt.Sprintf("d%d", n)))
			if pan != "" {
				return "panic"
			}
			return catOf(e)
		}
		cold := verdict(filepath.Join(base, "cache-cold-"+fl[len(fl)-10:]), rio.Placement_Copy, 1)
		warmCache := filepath.Join(base, "cache-warm-"+fl[len(fl)-10:])
		os.Setenv("RIO_CACHE", warmCache)
		safeCall(func() (api.WareID, error) {
			return tartrans.Unpack(ctx, id, "-", api.MustParseFilesetUnpackFilter(losslessUnpackStr), rio.Placement_None, wh, rio.Monitor{})
		})
		warm := verdict(warmCache, rio.Placement_Copy, 2)
		direct := verdict(filepath.Join(base, "cache-direct-"+fl[len(fl)-10:]), rio.Placement_Direct, 3)
		c.H(fmt.Sprintf("rejectsame:%d:%s:%s", k%4, fl[len(fl)-22:], cold))
		if cold != warm || cold != direct {
			c.PropFail("filter-warm-cache", fmt.Sprintf("the same ware and the same filter (%s): cold cache answers %s, a cache already holding the ware answers %s, direct placement answers %s", fl, cold, warm, direct), op)
		}
	}
}

// cacheForeignFilter: an archive as foreign tools write it — no entry for the root, none for any directory — unpacked with
// filters that set owners and times: the id the unpack reports is the tree hash of what it materialised (implied
// directories included: they get the filter's owner and time like every entry). Independent reference hash of a raw walk
// of the destination. Recipe: "cache-foreignfilter <tar|zip>".
func cacheForeignFilter(c *Ctx, op string) {
	c.Begin(op)
	fmtName := strings.Fields(op)[1]
	caseCounter++
	base := filepath.Join(c.Work, fmt.Sprintf("cff%d", caseCounter))
	defer rmrf(base)
	os.MkdirAll(base, 0755)
	var buf bytes.Buffer
	t0 := time.Unix(1.1e9, 0)
	files := []string{"d/f", "d/e/g", "top", "z/y/x/w"}
	if fmtName == "tar" {
		tw := tar.NewWriter(&buf)
		for _, n := range files {
			tw.WriteHeader(&tar.Header{Name: n, Typeflag: tar.TypeReg, Mode: 0644, Uid: 77, Gid: 78, ModTime: t0, Size: int64(len(n))})
			tw.Write([]byte(n))
		}
		tw.Close()
	} else {
		zw := zip.NewWriter(&buf)
		for _, n := range files {
			h := &zip.FileHeader{Name: n, Method: zip.Deflate, Modified: t0}
			h.SetMode(0644)
			w, _ := zw.CreateHeader(h)
			w.Write([]byte(n))
		}
		zw.Close()
	}
	ware := filepath.Join(base, "foreign."+fmtName)
	os.WriteFile(ware, buf.Bytes(), 0644)
	wh := []api.WarehouseLocation{api.WarehouseLocation("file://" + ware)}
	fn := funcsFor(fmtName)
	ctx := context.Background()
	c.EmitR(op, "skip", "skip")
	id, err, _ := safeCall(func() (api.WareID, error) {
		return fn.scan(ctx, api.PackType(fmtName), api.MustParseFilesetUnpackFilter(losslessUnpackStr), rio.Placement_None, wh[0], rio.Monitor{})
	})
	if err != nil {
		c.H("foreignfilter:" + fmtName + ":scan-failed")
		return
	}
	n := 0
	for _, fl := range []string{losslessUnpackStr, "uid=4000,gid=4001,mtime=@1234567,sticky=follow,setid=follow,dev=follow", "uid=mine,gid=mine,mtime=follow,sticky=follow,setid=follow,dev=follow", "uid=follow,gid=9,mtime=@5,sticky=ignore,setid=ignore,dev=ignore"} {
		for _, mode := range []rio.PlacementMode{rio.Placement_Direct, rio.Placement_Copy} {
			n++
			os.Setenv("RIO_CACHE", filepath.Join(base, fmt.Sprintf("cache%d", n)))
			dst := filepath.Join(base, fmt.Sprintf("dst%d", n))
			got, uerr, pan := safeCall(func() (api.WareID, error) {
				return fn.unpack(ctx, id, dst, api.MustParseFilesetUnpackFilter(fl), mode, wh, rio.Monitor{})
			})
			c.H("foreignfilter:" + fmtName + ":" + strings.Fields(resTok(got, uerr, pan))[0])
			if uerr != nil || pan != "" {
				c.PropFail("filter-refused-valid", fmt.Sprintf("a %s archive without directory entries, unpacked (%s) with %s: %s", fmtName, mode, fl, resTok(got, uerr, pan)), op)
				continue
			}
			sn, e := Snapshot(dst)
			if e != nil {
				continue
			}
			if want := b58(RefTreeHash(rootFirst(sn), sha384)); want != got.Hash {
				c.PropFail("filter-attr", fmt.Sprintf("a %s archive without directory entries, unpacked (%s) with %s: the unpack reports %s, the tree it materialised hashes to %s (an implied directory was hashed with other attributes than it was given)", fmtName, mode, fl, got.Hash, want), op)
			}
		}
	}
}

// cacheForeignOrder: wares written by somebody else — entries in any order (children before their directory's own entry),
// directory entries missing — unpacked through the cache: the shelf holds exactly the fileset the archive encodes (what
// its id, the reference tree hash, says). Recipe: "cache-foreign <k>".
func cacheForeignOrder(c *Ctx, op string) {
	caseCounter++
	base := filepath.Join(c.Work, fmt.Sprintf("cfo%d", caseCounter))
	defer rmrf(base)
	wh := filepath.Join(base, "wh")
	os.MkdirAll(wh, 0755)
	ctx := context.Background()
	uf := api.MustParseFilesetUnpackFilter(losslessUnpackStr)
	variants := []hdrOpts{{dirsAfterKids: true}, {dirsAfterKids: true, dotSlash: true}, {dropDirs: 0.5}, {}}
	for vi, o := range variants {
		fsx := c.GenFileset(GenOpts{MaxEntries: 8, Kinds: "ffddL", BigIds: false, Setid: true, MaxContent: 300})
		sanitizeForRoundtrip(fsx, "tar")
		if vi == 0 { // a directory with an owner and mode of its own, its child ahead of it
			fsx = Fileset{{Name: "", Kind: 'd', Perms: 0755, Uid: 0, Gid: 0, Sec: 1e9}, {Name: "a", Kind: 'd', Perms: 0700, Uid: 4000, Gid: 4001, Sec: 1e9 - 5}, {Name: "a/f", Kind: 'f', Perms: 0644, Uid: 7, Gid: 8, Sec: 1e9 - 9, Content: []byte("f")}}
		}
		hdrs, eff := c.filesetToHdrs(fsx, o)
		stream, err := encodeTar(hdrs, "pax")
		if err != nil {
			continue
		}
		for i := range eff {
			eff[i].Nsec = 0
		}
		id := api.WareID{Type: "tar", Hash: misc.Base58Encode(RefTreeHash(eff, sha384))}
		p := storedWarePath("ca", wh, id)
		os.MkdirAll(filepath.Dir(p), 0755)
		os.WriteFile(p, stream, 0644)
		cache := filepath.Join(base, fmt.Sprintf("cache%d", vi))
		os.Setenv("RIO_CACHE", cache)
		os.Setenv("RIO_BASE", filepath.Join(base, "riobase"))
		id2, err2, pan2 := safeCall(func() (api.WareID, error) {
			return tartrans.Unpack(ctx, id, "-", uf, rio.Placement_None, []api.WarehouseLocation{whAddr("ca", wh)}, rio.Monitor{})
		})
		r := resTok(id2, err2, pan2)
		c.H(fmt.Sprintf("cache-foreign:v%d:%s", vi, strings.Fields(r)[0]))
		if r != "ok "+id.Hash {
			continue // (whether every such archive is accepted is C05's business)
		}
		shelf := filepath.Join(cache, "tar", "fileset", id.Hash[0:3], id.Hash[3:6], id.Hash)
		got, e := Snapshot(shelf)
		if e != nil {
			c.PropFail("cache-shelf-missing", "an unpack through the cache succeeded but its shelf cannot be walked: "+e.Error(), op)
		} else if got.Digest(true) != eff.Digest(true) {
			c.PropFail("cache-shelf-tree", fmt.Sprintf("a foreign tar (entry order variant %d) was verified as %s, but its shelf does not hold that fileset: %s", vi, id.Hash[:8], DiffFilesets(eff, got, true)), op)
		}
	}
	c.EmitR(op, "skip", "skip")
	c.Distinct(op)
}

// cacheCommitFails: the commit of a freshly unpacked fileset onto its shelf cannot happen — the shard directory's name is
// taken by a dangling symlink, by a regular file, or the fileset directory is read-only (bind mount) — under every caching
// placement mode: the unpack answers with a categorized error, or it succeeded and the shelf (or the destination) holds the
// ware. A success with nothing stored is an I/O failure swallowed. Recipe: "cache-commitfails <tar|zip> <how> <mode>".
func cacheCommitFails(c *Ctx, op string) {
	c.Begin(op)
	f := strings.Fields(op)
	fmtName, how, mode := f[1], f[2], f[3]
	caseCounter++
	base := filepath.Join(c.Work, fmt.Sprintf("ccf%d", caseCounter))
	defer rmrf(base)
	src, wh, cache := filepath.Join(base, "src"), filepath.Join(base, "wh"), filepath.Join(base, "cache")
	os.MkdirAll(filepath.Join(src, "d"), 0755)
	os.MkdirAll(wh, 0755)
	os.WriteFile(filepath.Join(src, "d", "f"), []byte("content "+op), 0644)
	if how == "xdev" { // a fileset larger than the file system the shelves will live on
		x := uint32(77)
		big := make([]byte, 150000)
		for j := range big {
			x = x*1664525 + 1013904223
			big[j] = byte(x >> 24)
		}
		for _, n := range []string{"big1", "big2", "big3", "big4"} {
			os.WriteFile(filepath.Join(src, "d", n), big, 0644)
		}
	}
	for _, p := range []string{"d/f", "d", "."} {
		os.Chtimes(filepath.Join(src, p), time.Unix(1e9, 0), time.Unix(1e9, 0))
	}
	os.Setenv("RIO_CACHE", cache)
	os.Setenv("RIO_BASE", filepath.Join(base, "riobase"))
	ctx := context.Background()
	fn := funcsFor(fmtName)
	id, err := fn.pack(ctx, api.PackType(fmtName), src, api.MustParseFilesetPackFilter(losslessPackStr), whAddr("ca", wh), rio.Monitor{})
	c.EmitR(op, "skip", "skip")
	if err != nil {
		return
	}
	filesetDir := filepath.Join(cache, fmtName, "fileset")
	shard := filepath.Join(filesetDir, id.Hash[0:3])
	shelf := filepath.Join(shard, id.Hash[3:6], id.Hash)
	os.MkdirAll(filesetDir, 0755)
	switch how {
	case "dangling":
		os.Symlink("nowhere-"+id.Hash[:6], shard)
	case "dangling2":
		os.MkdirAll(shard, 0755)
		os.Symlink("nowhere", filepath.Join(shard, id.Hash[3:6]))
	case "xdev":
		// the shelves live on a file system of their own (a mount below the cache root), smaller than the fileset: the
		// commit rename from the cache root's temp dir fails with EXDEV
		if syscall.Mount("tmpfs", filepath.Join(cache, fmtName), "tmpfs", 0, "size=256k") != nil {
			c.H("cache-commitfails:skipped")
			return
		}
		defer syscall.Unmount(filepath.Join(cache, fmtName), syscall.MNT_DETACH)
	case "readonly":
		if syscall.Mount(filesetDir, filesetDir, "", syscall.MS_BIND, "") != nil {
			c.H("cache-commitfails:skipped")
			return
		}
		defer syscall.Unmount(filesetDir, syscall.MNT_DETACH)
		if syscall.Mount("", filesetDir, "", syscall.MS_BIND|syscall.MS_REMOUNT|syscall.MS_RDONLY, "") != nil {
			c.H("cache-commitfails:skipped")
			return
		}
	}
	dst := filepath.Join(base, "dst")
	got, uerr, pan := safeCall(func() (api.WareID, error) {
		return fn.unpack(ctx, id, dst, api.MustParseFilesetUnpackFilter(losslessUnpackStr), rio.PlacementMode(mode), []api.WarehouseLocation{whAddr("ca", wh)}, rio.Monitor{})
	})
	if mode == "mount" {
		syscall.Unmount(dst, 0)
	}
	c.H("cache-commitfails:" + how + ":" + mode + ":" + resTok(got, uerr, pan))
	switch {
	case pan != "":
		c.PropFail("cache-panic", "unpack panicked when the shelf could not be committed ("+how+"): "+pan, op)
	case uerr != nil:
		if cat := catOf(uerr); !strings.HasPrefix(cat, "rio-") {
			c.PropFail("uncategorized-error", "the failed commit onto the shelf ("+how+") is reported without a category: "+uerr.Error(), op)
		}
		// a shelf left behind by the failed unpack holds the complete fileset, or it is not there
		if _, e := os.Lstat(shelf); e == nil {
			want, _ := Snapshot(src)
			have, _ := Snapshot(shelf)
			if want.Digest(false) != have.Digest(false) {
				c.PropFail("shelf-not-verified", fmt.Sprintf("the unpack failed (%s: %s) and left a shelf for %s that does not hold the ware's fileset: %s", how, catOf(uerr), got, DiffFilesets(want, have, false)), op)
			}
		}
	default:
		if _, e := os.Stat(filepath.Join(shelf, "d", "f")); e != nil {
			c.PropFail("cache-shelf-missing", fmt.Sprintf("unpack (placement %s) answered %s although the commit onto the shelf cannot have happened (%s): the shelf does not hold the ware (%v)", mode, got, how, e), op)
		}
	}
}
