package main

import (
	"archive/tar"
	"bytes"
	"fmt"
	"strings"

	tartrans "github.com/polydawn/rio/transmat/tar"
)

func init() { engines["tarhdr"] = tarHdrEngine }

// tarhdr: the first block of a stream, as `Decompress` judges it (isTarHeader; the kind of stream it then assumes, which
// the harness derives from what rio does with the bytes: DetectCompression on the first ten bytes unless the block is a
// tar header). Blocks: real tar headers (every dialect, names beginning like magic numbers, bytes ≥ 0x80), the same with
// the checksum or a name byte damaged, compressed streams, random bytes, short blocks.
func tarHdrEngine(c *Ctx) {
	exec := func(b []byte, what string) {
		op := "tarhdr " + hx(string(b))
		if len(b) == 0 {
			return
		}
		isHdr := tartrans.IsTarHeaderForVerif(b)
		kind := "plain"
		if len(b) < 10 {
			kind = "short" // Decompress peeks at ten bytes: a shorter stream is an error before any detection
		}
		if !isHdr && len(b) >= 10 {
			switch tartrans.DetectCompression(b[:10]) {
			case tartrans.Bzip2:
				kind = "bzip2"
			case tartrans.Gzip:
				kind = "gzip"
			case tartrans.Xz:
				kind = "xz"
			}
		}
		c.EmitR(op, op, fmt.Sprintf("%v %s", isHdr, kind))
		c.H(fmt.Sprintf("tarhdr:%s:%v:%s", what, isHdr, kind))
	}
	if ls := replayLines(); ls != nil {
		for _, l := range ls {
			if strings.HasPrefix(l, "tarhdr ") {
				exec([]byte(unhx(strings.Fields(l)[1])), "replay")
			}
		}
		return
	}
	n := 60
	if c.Tier == "thorough" {
		n = 1500
	}
	names := []string{"BZhello.txt", "BZh91AY&SY", "\x1f\x8b\x08name", "\xfd7zXZ", "./", "a", "dir/", strings.Repeat("n", 99), "é/ü", "\xff\xfe\x80"}
	for k := 0; k < n; k++ {
		name := names[k%len(names)]
		if k >= len(names) && c.Chance(1, 2) {
			name = c.segment()
		}
		var buf bytes.Buffer
		tw := tar.NewWriter(&buf)
		h := &tar.Header{Name: name, Typeflag: []byte{tar.TypeReg, tar.TypeDir, tar.TypeSymlink}[c.Intn(3)], Mode: int64(c.Intn(07777)), Uid: c.Intn(70000), Gid: c.Intn(70000), Format: []tar.Format{tar.FormatUSTAR, tar.FormatPAX, tar.FormatGNU}[c.Intn(3)]}
		if h.Typeflag == tar.TypeReg {
			h.Size = 3
		}
		if h.Typeflag == tar.TypeSymlink {
			h.Linkname = "t"
		}
		if tw.WriteHeader(h) != nil {
			continue
		}
		blk := append([]byte(nil), buf.Bytes()...)
		if len(blk) < 512 {
			continue
		}
		blk = blk[:512]
		exec(blk, "header")
		// damage: one checksum digit, one name byte, the field emptied
		d1 := append([]byte(nil), blk...)
		d1[148+c.Intn(6)] ^= 1
		exec(d1, "bad-checksum")
		d2 := append([]byte(nil), blk...)
		d2[c.Intn(100)] += 1
		exec(d2, "bad-byte")
		d3 := append([]byte(nil), blk...)
		copy(d3[148:156], "        ")
		exec(d3, "no-checksum")
		exec(blk[:c.Intn(512)], "short")
		// compressed renderings of the same bytes: their first block is no tar header
		for _, ck := range []string{"gz", "bz2", "xz"} {
			if z, e := compressWith(ck, buf.Bytes()); e == nil && len(z) > 0 {
				if len(z) > 512 {
					z = z[:512]
				}
				exec(z, ck)
				exec(append(z, make([]byte, 512)...)[:512], ck+"-padded")
			}
		}
		r := make([]byte, 512)
		for i := range r {
			r[i] = byte(c.Rand())
		}
		exec(r, "random")
	}
}
