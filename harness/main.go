// Command harness is the correspondence (T-corr) side of the rio verification:
// it generates operations from one seeded PRNG, runs them against the real rio code
// (built from /repo's working tree), and writes three streams into --out:
//
//	ops.txt   one operation per line (input of the Lean model driver)
//	impl.txt  one canonical result line per operation, as observed on the implementation
//	prop.txt  one line per operation on which the *property itself* (an oracle that does not
//	          use the model) failed:  "<class-key>\t<description>\t<op line>"
//	stats.json  input distribution and counters
package main

import (
	"bufio"
	"encoding/hex"
	"encoding/json"
	"flag"
	"fmt"
	"os"
	"path/filepath"
	"sort"
	"strings"
)

type Ctx struct {
	Tier   string
	Seed   uint64
	rng    uint64
	OutDir string
	ops    *bufio.Writer
	recs   *bufio.Writer
	impl   *bufio.Writer
	prop   *bufio.Writer
	nOps   int
	nProp  int
	Hist   map[string]int
	Sample []string
	seen   map[string]struct{}
	Extra  map[string]interface{}
	Work   string // scratch directory (removed by caller)
}

// Rand is splitmix64; every random choice in every engine derives from it.
func (c *Ctx) Rand() uint64 {
	c.rng += 0x9e3779b97f4a7c15
	z := c.rng
	z = (z ^ (z >> 30)) * 0xbf58476d1ce4e5b9
	z = (z ^ (z >> 27)) * 0x94d049bb133111eb
	return z ^ (z >> 31)
}
func (c *Ctx) Intn(n int) int {
	if n <= 0 {
		return 0
	}
	return int(c.Rand() % uint64(n))
}
func (c *Ctx) Chance(num, den int) bool { return c.Intn(den) < num }

// Emit records one operation and the implementation's canonical result.
func (c *Ctx) Emit(op string, implResult string) { c.EmitR(op, op, implResult) }

// EmitR records a replayable recipe (what --replay consumes), the operation line derived from it
// for the Lean model, and the implementation's canonical result.
func (c *Ctx) EmitR(recipe, modelOp, implResult string) {
	fmt.Fprintln(c.recs, recipe)
	fmt.Fprintln(c.ops, modelOp)
	fmt.Fprintln(c.impl, implResult)
	c.nOps++
	if len(c.Sample) < 6 && (c.nOps%97 == 1) {
		x := recipe + " => " + implResult
		if len(x) > 600 {
			x = x[:600] + "…"
		}
		c.Sample = append(c.Sample, x)
	}
}

// Distinct counts op-independent non-trivial cases (by a caller supplied key).
func (c *Ctx) Distinct(key string) {
	c.seen[key] = struct{}{}
}

// Begin notes the recipe about to be executed (outside the scratch area): if the implementation takes the whole
// process down (fatal runtime error, out of memory — nothing recover() can catch), bin/check names this recipe as the
// failing input.
func (c *Ctx) Begin(op string) {
	os.WriteFile(filepath.Join(c.OutDir, "current_op.txt"), []byte(op), 0644)
}

// PropFail records a failure of the property oracle itself.
func (c *Ctx) PropFail(class, desc, op string) {
	desc = strings.NewReplacer("\t", "\\t", "\n", "\\n").Replace(desc)
	fmt.Fprintf(c.prop, "%s\t%s\t%s\n", class, desc, op)
	c.prop.Flush() // survive a later death of the process
	c.nProp++
}
func (c *Ctx) H(bucket string) { c.Hist[bucket]++ }

func hx(s string) string {
	if s == "" {
		return "-"
	}
	return hex.EncodeToString([]byte(s))
}
func unhx(s string) string {
	if s == "-" {
		return ""
	}
	b, err := hex.DecodeString(s)
	if err != nil {
		panic(err)
	}
	return string(b)
}

var engines = map[string]func(*Ctx){}

func main() {
	tier := flag.String("tier", "quick", "quick|thorough")
	seed := flag.Uint64("seed", 1, "PRNG seed")
	out := flag.String("out", "", "output directory")
	replay := flag.String("replay", "", "file with op lines to replay instead of generating")
	flag.Parse()
	if flag.NArg() != 1 || *out == "" {
		fmt.Fprintln(os.Stderr, "usage: harness --out DIR [--tier T] [--seed N] [--replay FILE] ENGINE")
		os.Exit(2)
	}
	name := flag.Arg(0)
	eng, ok := engines[name]
	if !ok {
		var ns []string
		for k := range engines {
			ns = append(ns, k)
		}
		sort.Strings(ns)
		fmt.Fprintln(os.Stderr, "unknown engine; have:", ns)
		os.Exit(2)
	}
	must(os.MkdirAll(*out, 0755))
	c := &Ctx{Tier: *tier, Seed: *seed, rng: *seed*0x9e3779b97f4a7c15 + 0x1234567, OutDir: *out,
		Hist: map[string]int{}, seen: map[string]struct{}{}, Extra: map[string]interface{}{}}
	fo, err := os.Create(filepath.Join(*out, "ops.txt"))
	must(err)
	fr, err := os.Create(filepath.Join(*out, "recipes.txt"))
	must(err)
	fi, err := os.Create(filepath.Join(*out, "impl.txt"))
	must(err)
	fp, err := os.Create(filepath.Join(*out, "prop.txt"))
	must(err)
	c.ops, c.impl, c.prop = bufio.NewWriterSize(fo, 1<<20), bufio.NewWriterSize(fi, 1<<20), bufio.NewWriter(fp)
	c.recs = bufio.NewWriterSize(fr, 1<<20)
	c.Work = filepath.Join(*out, "work")
	must(os.MkdirAll(c.Work, 0755))
	if *replay != "" {
		replayFile = *replay
	}
	eng(c)
	c.ops.Flush()
	c.recs.Flush()
	fr.Close()
	c.impl.Flush()
	c.prop.Flush()
	fo.Close()
	fi.Close()
	fp.Close()
	os.RemoveAll(c.Work)
	st := map[string]interface{}{
		"engine": name, "tier": *tier, "seed": *seed, "ops": c.nOps, "prop_failures": c.nProp,
		"distinct_nontrivial": len(c.seen), "hist": c.Hist, "samples": c.Sample, "extra": c.Extra,
	}
	b, _ := json.MarshalIndent(st, "", " ")
	must(os.WriteFile(filepath.Join(*out, "stats.json"), b, 0644))
}

var replayFile string

// replayLines returns the op lines of the replay file for this engine (nil = generate).
func replayLines() []string {
	if replayFile == "" {
		return nil
	}
	f, err := os.Open(replayFile)
	must(err)
	defer f.Close()
	var ls []string
	sc := bufio.NewScanner(f)
	sc.Buffer(make([]byte, 1<<20), 1<<26)
	for sc.Scan() {
		if sc.Text() != "" {
			ls = append(ls, sc.Text())
		}
	}
	return ls
}

func must(err error) {
	if err != nil {
		fmt.Fprintln(os.Stderr, "harness fatal:", err)
		os.Exit(3)
	}
}
