package main

import (
	"fmt"
	"io"
	"os"
	pathpkg "path"
	"path/filepath"
	"runtime"
	"sort"
	"strings"
	"syscall"
	"time"
	"unsafe"

	"github.com/polydawn/rio/fs"
	"github.com/polydawn/rio/fs/osfs"
	"golang.org/x/sys/unix"
)

func init() { engines["osfs"] = osfsEngine }

const (
	sysOpenat2    = 437
	resolveInRoot = 0x10
)

type openHow struct {
	flags, mode, resolve uint64
}

// kernelResolve opens `p` relative to dirfd as if dirfd were the root (openat2 RESOLVE_IN_ROOT) and
// returns the identity (dev, ino) of the object reached.
func kernelResolve(dirfd int, p string, followLast bool) (dev, ino uint64, err error) {
	how := openHow{flags: uint64(unix.O_PATH | unix.O_CLOEXEC), resolve: resolveInRoot}
	if !followLast {
		how.flags |= uint64(unix.O_NOFOLLOW)
	}
	bp, e := syscall.BytePtrFromString(p)
	if e != nil {
		return 0, 0, e
	}
	fd, _, en := syscall.Syscall6(sysOpenat2, uintptr(dirfd), uintptr(unsafe.Pointer(bp)), uintptr(unsafe.Pointer(&how)), unsafe.Sizeof(how), 0, 0)
	if en != 0 {
		return 0, 0, en
	}
	defer syscall.Close(int(fd))
	var st unix.Stat_t
	if e := unix.Fstat(int(fd), &st); e != nil {
		return 0, 0, e
	}
	return uint64(st.Dev), st.Ino, nil
}

// kernelReadlink reads the symlink `p` names when resolved with dirfd as the root.
func kernelReadlink(dirfd int, p string) (string, error) {
	how := openHow{flags: uint64(unix.O_PATH | unix.O_CLOEXEC | unix.O_NOFOLLOW), resolve: resolveInRoot}
	bp, e := syscall.BytePtrFromString(p)
	if e != nil {
		return "", e
	}
	fd, _, en := syscall.Syscall6(sysOpenat2, uintptr(dirfd), uintptr(unsafe.Pointer(bp)), uintptr(unsafe.Pointer(&how)), unsafe.Sizeof(how), 0, 0)
	if en != 0 {
		return "", en
	}
	defer syscall.Close(int(fd))
	buf := make([]byte, 4096)
	n, err := unix.Readlinkat(int(fd), "", buf)
	if err != nil {
		return "", err
	}
	return string(buf[:n]), nil
}

type osNode struct {
	path   string
	kind   byte // d f L
	target string
}

func treeTok(ns []osNode) string {
	if len(ns) == 0 {
		return "-"
	}
	var ts []string
	for _, n := range ns {
		switch n.kind {
		case 'L':
			ts = append(ts, hx(n.path)+"=L:"+hx(n.target))
		default:
			ts = append(ts, hx(n.path)+"="+string([]byte{n.kind}))
		}
	}
	return strings.Join(ts, ",")
}
func parseTreeTok(s string) []osNode {
	var ns []osNode
	if s == "-" {
		return ns
	}
	for _, t := range strings.Split(s, ",") {
		p := strings.SplitN(t, "=", 2)
		n := osNode{path: unhx(p[0])}
		if strings.HasPrefix(p[1], "L:") {
			n.kind, n.target = 'L', unhx(p[1][2:])
		} else {
			n.kind = p[1][0]
		}
		ns = append(ns, n)
	}
	return ns
}

func buildTree(base string, ns []osNode) error {
	os.MkdirAll(base, 0755)
	sorted := append([]osNode(nil), ns...)
	sort.SliceStable(sorted, func(a, b int) bool { return strings.Count(sorted[a].path, "/") < strings.Count(sorted[b].path, "/") })
	outRel := strings.TrimPrefix(filepath.Dir(filepath.Dir(base)), "/")
	for _, n := range sorted {
		p := filepath.Join(base, strings.ReplaceAll(n.path, "@OUTREL@", outRel))
		os.MkdirAll(filepath.Dir(p), 0755)
		var err error
		switch n.kind {
		case 'd':
			err = os.Mkdir(p, 0755)
		case 'f':
			err = os.WriteFile(p, []byte("content of "+n.path), 0644)
		case 'L':
			// "@OUT@" stands for the absolute host path of the directory holding the secret (outside the base)
			err = os.Symlink(strings.ReplaceAll(n.target, "@OUT@", filepath.Dir(filepath.Dir(base))), p)
		}
		if err != nil {
			return err
		}
	}
	return nil
}

func fsCatOf(err error) string {
	if err == nil {
		return "ok"
	}
	return catOf(err)
}

var osfsCase int

// osfsExec: recipe "osfs <tree> <op> <args...>" — ops: realpath <0|1> <path>, resolvelink <target> <start>,
// and the handle operations checked against the kernel: op <name> <path>
func osfsExec(c *Ctx, op string) {
	c.Begin(op) // a resolver that recurses without bound dies with a stack overflow, which no recover() catches
	f := strings.Fields(op)
	ns := parseTreeTok(f[1])
	osfsCase++
	outer := filepath.Join(c.Work, fmt.Sprintf("os%d", osfsCase))
	defer rmrf(outer)
	base := filepath.Join(outer, "x", "base")
	// decoys: the same names one level up and at the outer root, plus a secret outside
	os.MkdirAll(filepath.Join(outer, "x"), 0755)
	os.WriteFile(filepath.Join(outer, "secret"), []byte("SECRET"), 0600)
	// a sibling whose name extends the base's own name
	os.MkdirAll(filepath.Join(outer, "x", "base2"), 0755)
	os.WriteFile(filepath.Join(outer, "x", "base2", "secret"), []byte("SECRET"), 0600)
	if err := buildTree(base, ns); err != nil {
		c.EmitR(op, "skip", "skip")
		return
	}
	for _, n := range ns {
		if strings.HasPrefix(n.path, "@OUTREL@/") && n.kind == 'L' {
			// the host-side twin of a link that sits at the re-rooted copy of the outside directory
			os.Symlink("HOSTSIDE", filepath.Join(outer, strings.TrimPrefix(n.path, "@OUTREL@/")))
		}
		if !strings.Contains(n.path, "/") {
			os.WriteFile(filepath.Join(outer, "x", n.path), []byte("DECOY"), 0644)
			os.WriteFile(filepath.Join(outer, n.path), []byte("DECOY"), 0644)
		}
	}
	// the model sees the link targets as they are on disk
	mop := strings.ReplaceAll(strings.ReplaceAll(op, hx("@OUTREL@"), hx(strings.TrimPrefix(outer, "/"))), hx("@OUT@"), hx(outer))
	if strings.Contains(op, hx("@OUTREL@")) {
		// the directories leading to the re-rooted twin exist on disk (MkdirAll): tell the model
		mf := strings.Fields(mop)
		segs := strings.Split(strings.TrimPrefix(outer, "/"), "/")
		for i := 1; i <= len(segs); i++ {
			mf[1] += "," + hx(strings.Join(segs[:i], "/")) + "=d"
		}
		mop = strings.Join(mf, " ")
	}
	afs := osfs.New(fs.MustAbsolutePath(base))
	bfd, err := unix.Open(base, unix.O_PATH|unix.O_DIRECTORY, 0)
	if err != nil {
		c.EmitR(op, "skip", "skip")
		return
	}
	defer unix.Close(bfd)
	relOf := func(abs string) (string, bool) {
		if abs == base {
			return "", true
		}
		if strings.HasPrefix(abs, base+"/") {
			return abs[len(base)+1:], true
		}
		return abs, false
	}
	identity := func(abs string) (uint64, uint64, error) {
		var st unix.Stat_t
		if e := unix.Lstat(abs, &st); e != nil {
			return 0, 0, e
		}
		return uint64(st.Dev), st.Ino, nil
	}
	switch f[2] {
	case "realpath":
		rl := f[3] == "1"
		raw := unhx(f[4])
		rp, ok := tryRel(raw)
		if !ok {
			c.EmitR(op, mop, "panic")
			return
		}
		var res string
		done := make(chan struct{})
		var abs string
		var e error
		go func() {
			defer func() {
				if r := recover(); r != nil {
					res = "panic"
				}
				close(done)
			}()
			abs, e = osfs.RealpathForVerif(afs, rp, rl)
		}()
		select {
		case <-done:
		case <-time.After(5 * time.Second):
			c.PropFail("osfs-nontermination", "path resolution did not terminate", op)
			c.EmitR(op, mop, "timeout")
			return
		}
		if res == "" {
			if e != nil {
				res = "err " + fsCatOf(e)
			} else {
				rel, inside := relOf(abs)
				res = "ok " + hx(rel)
				if !inside || rel == ".." || strings.HasPrefix(rel, "../") {
					c.PropFail("osfs-escape", "resolved path lies outside the base: "+abs, op)
				}
				// kernel agreement: when the kernel's own in-root resolution succeeds, it is the same object
				kd, ki, ke := kernelResolve(bfd, strings.TrimPrefix(rp.String(), "./"), rl)
				od, oi, oe := identity(abs)
				if ke == nil && oe == nil && (kd != od || ki != oi) {
					c.PropFail("osfs-differs-from-kernel", fmt.Sprintf("osfs resolves to %q, the kernel's in-root resolution reaches another object", rel), op)
				}
				if ke == nil && oe == nil {
					c.H("agree:both-ok")
				}
				// every proper prefix of the result must be a non-link (C07_nolinks)
				cur := base
				segs := strings.Split(rel, "/")
				for i, s := range segs {
					if rel == "" {
						break
					}
					cur = filepath.Join(cur, s)
					if i == len(segs)-1 && !rl {
						break
					}
					if fi, le := os.Lstat(cur); le == nil && fi.Mode()&os.ModeSymlink != 0 {
						c.PropFail("osfs-link-in-result", "the resolved path still contains a symlink at "+cur, op)
					}
				}
			}
		}
		c.H("realpath:" + strings.Fields(res)[0])
		c.EmitR(op, mop, res)
	case "resolvelink":
		target, start := unhx(f[3]), unhx(f[4])
		sp, ok := tryRel(start)
		if !ok {
			c.EmitR(op, mop, "panic")
			return
		}
		var res string
		func() {
			defer func() {
				if r := recover(); r != nil {
					res = "panic"
				}
			}()
			p, e := afs.ResolveLink(target, sp)
			if e != nil {
				res = "err " + fsCatOf(e)
			} else {
				s, _ := relFields(p)
				res = "ok " + hx(s)
				if p.GoesUp() {
					c.PropFail("osfs-escape", "ResolveLink returned a path leaving the base", op)
				}
			}
		}()
		// a link text of one ordinary segment read at the base dir names that entry: only the segment ".." itself is an
		// excess "up" to clamp — "..data" or "..." are names
		if !strings.Contains(target, "/") && target != "" && target != "." && target != ".." && target != start && !strings.Contains(start, "/") && pathpkg.Clean(start) != ".." {
			isLink := false
			for _, n := range ns {
				if n.path == target && n.kind == 'L' {
					isLink = true
				}
			}
			if !isLink && res != "ok "+hx(target) {
				c.PropFail("goesup-gate", fmt.Sprintf("ResolveLink(%q) from the top-level link %q answered %q: the segment %q does not leave the base and names the entry %q there", target, start, res, target, target), op)
			}
		}
		// a link named through links: the answer is the one given for the link's resolved location (the directory part is
		// resolved in-root, by the handle itself), never something read along a host-side resolution of those links
		if strings.Contains(start, "/") && !sp.GoesUp() {
			if dabs, e := osfs.RealpathForVerif(afs, sp.Dir(), true); e == nil {
				if rel, e2 := filepath.Rel(filepath.Join(outer, "x", "base"), dabs); e2 == nil && !strings.HasPrefix(rel, "..") {
					if sp2, ok2 := tryRel(filepath.Join(rel, sp.Last())); ok2 && sp2 != sp {
						res2 := ""
						func() {
							defer func() { recover() }()
							if p2, e3 := afs.ResolveLink(target, sp2); e3 != nil {
								res2 = "err " + fsCatOf(e3)
							} else {
								s2, _ := relFields(p2)
								res2 = "ok " + hx(s2)
							}
						}()
						if strings.HasPrefix(res2, "ok ") && res2 != res { // (a resolved location that does not exist answers not-exists by itself)
							c.PropFail("osfs-differs-from-kernel", fmt.Sprintf("ResolveLink(%q) at %q answers %s; at the same link's resolved location %q it answers %s (links in the directory part were left to the host)", target, start, res, sp2.String(), res2), op)
						}
					}
				}
			}
		}
		if cl := pathpkg.Clean(start); (cl == ".." || strings.HasPrefix(cl, "../")) && res != "err fs-breakout" {
			c.PropFail("goesup-gate", fmt.Sprintf("ResolveLink(%q) from the starting point %q (cleaned %q, leaves the base) answered %q instead of a breakout error", target, start, cl, res), op)
		}
		c.H("resolvelink:" + strings.Fields(res)[0])
		c.EmitR(op, mop, res)
	case "op":
		// handle operations: what they touch must be what the kernel's in-root resolution names, and never the outside
		name, raw := f[3], unhx(f[4])
		rp, ok := tryRel(raw)
		if !ok {
			c.EmitR(op, "skip", "skip")
			return
		}
		rel := strings.TrimPrefix(rp.String(), "./")
		before, _ := Snapshot(outer)
		follow := name == "stat" || name == "chmod" || name == "readdir" || name == "settimes" || name == "open" || name == "openx" || name == "opendir" || name == "openpathx"
		kd, ki, ke := kernelResolve(bfd, rel, follow)
		var opErr error
		var got string
		func() {
			defer func() {
				if r := recover(); r != nil {
					opErr = fmt.Errorf("panic: %v", r)
					c.PropFail("osfs-panic", fmt.Sprint(r), op)
				}
			}()
			switch name {
			case "stat":
				_, opErr = afs.Stat(rp)
			case "lstat":
				var m *fs.Metadata
				m, opErr = afs.LStat(rp)
				if opErr == nil && m.Type == fs.Type_Symlink {
					if kt, ke2 := kernelReadlink(bfd, rel); ke2 == nil && kt != m.Linkname {
						c.PropFail("osfs-differs-from-kernel", fmt.Sprintf("LStat reports link target %q, the kernel's in-root resolution reads %q", m.Linkname, kt), op)
					}
					if m.Linkname == "HOSTSIDE" {
						c.PropFail("osfs-escape", "LStat read the target of a symlink outside the base", op)
					}
				}
			case "open", "openx":
				var fl fs.File
				flags := os.O_RDONLY
				if name == "openx" { // O_EXCL without O_CREATE: the kernel ignores it and follows a final symlink
					flags |= os.O_EXCL
				}
				fl, opErr = afs.OpenFile(rp, flags, 0)
				if opErr == nil {
					b, _ := io.ReadAll(io.LimitReader(fl, 100))
					fl.Close()
					got = string(b)
				}
			case "opendir", "opendirnf", "openpathx":
				// O_DIRECTORY alone follows a final symlink (only together with O_NOFOLLOW does the kernel refuse it): what is
				// opened is a directory inside the base — the one the kernel's in-root resolution names — or nothing
				flags := os.O_RDONLY | syscall.O_DIRECTORY
				if name == "opendirnf" {
					flags |= syscall.O_NOFOLLOW
				}
				if name == "openpathx" { // with O_PATH the kernel ignores O_CREAT and O_EXCL — and follows a final symlink
					flags = unix.O_PATH | os.O_CREATE | os.O_EXCL
				}
				var fl fs.File
				fl, opErr = afs.OpenFile(rp, flags, 0)
				if opErr == nil {
					if of, ok := fl.(*os.File); ok {
						var st unix.Stat_t
						if unix.Fstat(int(of.Fd()), &st) == nil {
							if where, e := os.Readlink(fmt.Sprintf("/proc/self/fd/%d", of.Fd())); e == nil && where != base && !strings.HasPrefix(where, base+"/") {
								c.PropFail("osfs-escape-open", fmt.Sprintf("OpenFile(%q, %#x) opened %s, which is outside the base", raw, flags, where), op)
							} else if name == "opendir" && ke == nil && (uint64(st.Dev) != kd || st.Ino != ki) {
								c.PropFail("osfs-differs-from-kernel", fmt.Sprintf("OpenFile(%q, O_RDONLY|O_DIRECTORY) opened another directory than the kernel's in-root resolution names", raw), op)
							}
						}
					}
					fl.Close()
				}
			case "mkdir":
				opErr = afs.Mkdir(rp.Join(fs.MustRelPath("newdir")), 0755)
			case "chmod":
				opErr = afs.Chmod(rp, 0700)
			case "settimes":
				opErr = afs.SetTimesNano(rp, time.Unix(12345, 0), time.Unix(12345, 0))
			case "settimesl":
				opErr = afs.SetTimesLNano(rp, time.Unix(12346, 0), time.Unix(12346, 0))
			case "lchown":
				opErr = afs.Lchown(rp, 4141, 4242)
			case "mklink":
				opErr = afs.Mklink(rp.Join(fs.MustRelPath("newlink")), "anywhere")
			case "mkfifo":
				opErr = afs.Mkfifo(rp.Join(fs.MustRelPath("newfifo")), 0644)
			case "mkdev":
				opErr = afs.MkdevChar(rp.Join(fs.MustRelPath("newdev")), 1, 3, 0600)
			case "readdir":
				_, opErr = afs.ReadDirNames(rp)
			case "readlink":
				var tg string
				tg, _, opErr = afs.Readlink(rp)
				if opErr == nil {
					if kt, ke2 := kernelReadlink(bfd, rel); ke2 == nil && kt != tg {
						c.PropFail("osfs-differs-from-kernel", fmt.Sprintf("Readlink reports %q, the kernel's in-root resolution reads %q", tg, kt), op)
					}
					if tg == "HOSTSIDE" {
						c.PropFail("osfs-escape", "Readlink read the target of a symlink outside the base", op)
					}
				}
			}
		}()
		after, _ := Snapshot(outer)
		// the goes-up gate: a path whose cleaned form is ".." or starts with "../" is refused (breakout) by every operation
		if cl := pathpkg.Clean(raw); cl == ".." || strings.HasPrefix(cl, "../") {
			c.H("op:goesup-path")
			if opErr == nil || fsCatOf(opErr) != "fs-breakout" {
				c.PropFail("goesup-gate", fmt.Sprintf("%s on %q (cleaned %q, leaves the base) answered %s instead of a breakout error", name, raw, cl, fsCatOf(opErr)), op)
			}
		}
		// anything outside base/ changed or read?
		if got == "SECRET" || got == "DECOY" {
			c.PropFail("osfs-escape-open", "OpenFile through the handle read a file outside the base", op)
		}
		chg := changedPaths(before, after)
		for _, p := range chg {
			if !(p == "x/base" || strings.HasPrefix(p, "x/base/")) {
				c.PropFail("osfs-escape", fmt.Sprintf("%s through the handle changed %q outside the base", name, p), op)
			}
		}
		// the changed object is the one the kernel's in-root resolution names
		if opErr == nil && ke == nil && (name == "chmod" || name == "settimes" || name == "settimesl" || name == "lchown") {
			for _, p := range chg {
				d, i, e := identity(filepath.Join(outer, p))
				if e == nil && (d != kd || i != ki) {
					c.PropFail("osfs-differs-from-kernel", fmt.Sprintf("%s changed %q, the kernel's in-root resolution names another object", name, p), op)
				}
			}
		}
		if opErr == nil && ke == nil && (name == "open" || name == "openx") {
			// content must be that of the kernel-resolved object
			for _, e := range after {
				if e.Kind == 'f' {
					if d, i, er := identity(filepath.Join(outer, e.Name)); er == nil && d == kd && i == ki && string(e.Content[:min(len(e.Content), 100)]) != got {
						c.PropFail("osfs-differs-from-kernel", "OpenFile read another object than the kernel's in-root resolution names", op)
					}
				}
			}
		}
		// a cycle is reported as one (the category the interface documents for it), whichever operation meets it
		if opErr != nil && strings.Contains(opErr.Error(), "cyclic symlinks") && fsCatOf(opErr) != "fs-recursion" {
			c.PropFail("osfs-differs-from-kernel", fmt.Sprintf("%s on %q met a symlink cycle (ELOOP for the kernel) and reports it as %s instead of fs-recursion", name, raw, fsCatOf(opErr)), op)
		}
		c.H("op:" + name + ":" + fsCatOf(opErr))
		c.EmitR(op, "skip", "skip")
	case "reuse":
		// one handle across a change of the tree: `osfs <tree> reuse <path> <dir> <target>` — walk <path> through the
		// handle, then replace the directory <dir> by a symlink to <target> (its content moves to <dir>.real), then
		// every read operation on <path> through the *same* handle must answer exactly as a fresh handle does
		// (resolution is a function of the tree as it is now, not of what the handle saw earlier).
		raw, dir, target := unhx(f[3]), unhx(f[4]), unhx(f[5])
		rp, ok := tryRel(raw)
		if !ok {
			c.EmitR(op, "skip", "skip")
			return
		}
		observe := func(h fs.FS, name string) (res string) {
			defer func() {
				if r := recover(); r != nil {
					res = "panic"
				}
			}()
			switch name {
			case "stat":
				m, e := h.Stat(rp)
				if e != nil {
					return "err " + fsCatOf(e)
				}
				return fmt.Sprintf("ok %v %d", m.Type, m.Size)
			case "lstat":
				m, e := h.LStat(rp)
				if e != nil {
					return "err " + fsCatOf(e)
				}
				return fmt.Sprintf("ok %v %d %s", m.Type, m.Size, m.Linkname)
			case "open":
				fl, e := h.OpenFile(rp, os.O_RDONLY, 0)
				if e != nil {
					return "err " + fsCatOf(e)
				}
				b, _ := io.ReadAll(io.LimitReader(fl, 100))
				fl.Close()
				return "ok " + string(b)
			case "readdir":
				ns, e := h.ReadDirNames(rp)
				if e != nil {
					return "err " + fsCatOf(e)
				}
				sort.Strings(ns)
				return "ok " + strings.Join(ns, ",")
			}
			return "?"
		}
		names := []string{"stat", "lstat", "open", "readdir"}
		for _, n := range names {
			observe(afs, n) // the handle walks the tree as it is now
		}
		if os.Rename(filepath.Join(base, dir), filepath.Join(base, dir+".real")) != nil {
			c.EmitR(op, "skip", "skip")
			return
		}
		// the same names exist at the host-side reading of the target: an object a stale handle would reach
		if strings.HasPrefix(raw, dir+"/") {
			twin := filepath.Join(outer, "hostside", strings.TrimPrefix(raw, dir+"/"))
			os.MkdirAll(filepath.Dir(twin), 0755)
			os.WriteFile(twin, []byte("HOSTSIDE"), 0644)
		}
		os.Symlink(strings.ReplaceAll(target, "@OUT@", outer), filepath.Join(base, dir))
		before, _ := Snapshot(filepath.Join(outer, "hostside"))
		fresh := osfs.New(fs.MustAbsolutePath(base))
		for _, n := range names {
			a, b := observe(afs, n), observe(fresh, n)
			if a != b {
				c.PropFail("osfs-handle-state", fmt.Sprintf("%s on %q after %q became a symlink to %q: the handle used earlier answers %q, a fresh handle %q", n, raw, dir, target, a, b), op)
			}
			if strings.Contains(a, "HOSTSIDE") {
				c.PropFail("osfs-escape-open", "a handle used earlier read an object outside the base", op)
			}
		}
		// and a change through the stale handle must land inside
		afs.Chmod(rp, 0600)
		after, _ := Snapshot(filepath.Join(outer, "hostside"))
		if len(changedPaths(before, after)) > 0 {
			c.PropFail("osfs-escape", "chmod through a handle used earlier changed an object outside the base", op)
		}
		c.H("op:reuse")
		c.EmitR(op, "skip", "skip")
	}
	c.Distinct(op)
}

func changedPaths(a, b Fileset) []string {
	am := map[string]string{}
	for _, e := range a {
		x := Fileset{e}
		am[e.Name] = x.Digest(true)
	}
	var out []string
	seen := map[string]bool{}
	for _, e := range b {
		x := Fileset{e}
		seen[e.Name] = true
		if d, ok := am[e.Name]; !ok || d != x.Digest(true) {
			out = append(out, e.Name)
		}
	}
	for k := range am {
		if !seen[k] {
			out = append(out, k)
		}
	}
	return out
}

var linkTargets = []string{"..data", "...", "/..x", "..a/b", "a", "b", "d", "d/a", "../a", "..", ".", "/", "/a", "/d/a", "../../../a", "/../..", "nope", "nope/x", "l1", "l2", "d/l1", "./a", "a//b", "d/../a", "l2/../a", "d/sub/../../b", "l1/x", "/l2", "f/x", "a/", "/l1/../b"}

func (c *Ctx) genOsTree() []osNode {
	names := []string{"a", "b", "d", "f", "l1", "l2", "sub"}
	var ns []osNode
	used := map[string]bool{}
	dirs := []string{""}
	n := 3 + c.Intn(7)
	for i := 0; i < n; i++ {
		parent := dirs[c.Intn(len(dirs))]
		nm := names[c.Intn(len(names))]
		p := nm
		if parent != "" {
			p = parent + "/" + nm
		}
		if used[p] || strings.Count(p, "/") > 2 {
			continue
		}
		used[p] = true
		var nd osNode
		switch {
		case strings.HasPrefix(nm, "l"):
			nd = osNode{p, 'L', linkTargets[c.Intn(len(linkTargets))]}
		case nm == "f":
			nd = osNode{p, 'f', ""}
		default:
			if c.Chance(3, 4) {
				nd = osNode{p, 'd', ""}
				dirs = append(dirs, p)
			} else if c.Chance(1, 2) {
				nd = osNode{p, 'f', ""}
			} else {
				nd = osNode{p, 'L', linkTargets[c.Intn(len(linkTargets))]}
			}
		}
		ns = append(ns, nd)
	}
	return ns
}

// derivedPaths: paths that enter a directory through a symlink and end at one of its children (in particular at
// another symlink): the interaction cases nobody writes by hand.
func derivedPaths(ns []osNode) []string {
	var out []string
	for _, l := range ns {
		if l.kind != 'L' || strings.Contains(l.target, "@") {
			continue
		}
		var t string
		if strings.HasPrefix(l.target, "/") {
			t = pathpkg.Clean(l.target)
		} else {
			t = pathpkg.Clean("/" + pathpkg.Join(pathpkg.Dir(l.path), l.target))
		}
		t = strings.TrimPrefix(t, "/")
		for _, n := range ns {
			d := pathpkg.Dir(n.path)
			if d == "." {
				d = ""
			}
			if d == t {
				out = append(out, l.path+"/"+pathpkg.Base(n.path))
			}
		}
	}
	return out
}

// osfsUnprivileged: the handle used by an account that is neither root nor the owner of the nodes in the base — the
// no-follow operations on a link owned by somebody else are refused by the kernel (EPERM), and whatever the handle then
// does, the host object the link's raw text names outside the base (which this account does own) stays as it is.
// Recipe: "osfs-unpriv".
func osfsUnprivileged(c *Ctx, op string) {
	c.Begin(op)
	c.EmitR(op, "skip", "skip")
	if os.Getuid() != 0 {
		c.H("osfs-unpriv:skipped")
		return
	}
	top, err := os.MkdirTemp("/tmp", "verif-osfs-unpriv-")
	if err != nil {
		return
	}
	defer rmrf(top)
	os.Chmod(top, 0755)
	base, host := filepath.Join(top, "base"), filepath.Join(top, "host")
	os.MkdirAll(filepath.Join(base, "d"), 0755)
	os.MkdirAll(host, 0755)
	victim := filepath.Join(host, "victim")
	os.WriteFile(victim, []byte("victim"), 0644)
	os.Chown(victim, 65534, 65534)
	os.Chown(host, 65534, 65534)
	t0 := time.Unix(981173106, 0)
	os.Chtimes(victim, t0, t0)
	os.Symlink(victim, filepath.Join(base, "lnk"))                   // owned by root, names the host object by absolute path
	os.Symlink("../../host/victim", filepath.Join(base, "d", "rel")) // … by a relative one that climbs out
	afs := osfs.New(fs.MustAbsolutePath(base))
	results := map[string]string{}
	func() {
		runtime.LockOSThread()
		defer runtime.UnlockOSThread()
		unix.Setfsgid(65534)
		unix.Setfsuid(65534)
		defer unix.Setfsuid(0)
		defer unix.Setfsgid(0)
		t1 := time.Unix(1433664000, 0)
		for _, l := range []string{"lnk", "d/rel"} {
			rp := fs.MustRelPath(l)
			func() {
				defer func() {
					if r := recover(); r != nil {
						results[l+":panic"] = fmt.Sprint(r)
					}
				}()
				results[l+":settimesl"] = fsCatOf(afs.SetTimesLNano(rp, t1, t1))
				results[l+":lchown"] = fsCatOf(afs.Lchown(rp, 65534, 65534))
			}()
		}
	}()
	for k, v := range results {
		c.H("osfs-unpriv:" + k + ":" + v)
		if strings.HasSuffix(k, ":panic") {
			c.PropFail("osfs-panic", "the handle panicked when used by an unprivileged account: "+v, op)
		}
	}
	if st, e := os.Stat(victim); e != nil || !st.ModTime().Equal(t0) {
		c.PropFail("osfs-escape", fmt.Sprintf("SetTimesLNano on a link inside the base, called by an account that does not own the link (the kernel answers EPERM), changed the times of the host file the link's text names outside the base (now %v); the call answered %s", st.ModTime().UTC(), results["lnk:settimesl"]), op)
	}
	if b, _ := os.ReadFile(victim); string(b) != "victim" {
		c.PropFail("osfs-escape", "the host file outside the base was modified", op)
	}
	c.Distinct(op)
}

func osfsEngine(c *Ctx) {
	if ls := replayLines(); ls != nil {
		for _, op := range ls {
			if strings.HasPrefix(op, "osfs ") {
				osfsExec(c, op)
			} else if strings.HasPrefix(op, "osfs-unpriv") {
				osfsUnprivileged(c, op)
			}
		}
		return
	}
	osfsUnprivileged(c, "osfs-unpriv")
	nTrees := 40
	if c.Tier == "thorough" {
		nTrees = 1200
	}
	// permanent corpus: cycles, chains, over-dotted, absolute, the "x/.." through a link case, a link to the outside secret
	corpus := [][]osNode{
		{{"l1", 'L', "l2"}, {"l2", 'L', "l1"}},
		{{"l1", 'L', "l1"}},
		{{"d", 'd', ""}, {"d/a", 'f', ""}, {"l1", 'L', "/d"}, {"l2", 'L', "../../../../d/a"}},
		{{"deep", 'd', ""}, {"deep/er", 'd', ""}, {"deep/secret", 'f', ""}, {"secret", 'f', ""}, {"sub", 'L', "deep/er"}, {"l1", 'L', "sub/../secret"}},
		{{"d", 'd', ""}, {"d/l1", 'L', "../l2"}, {"l2", 'L', "d/l1/x"}},
		{{"l1", 'L', "../../secret"}, {"l2", 'L', "@OUT@/secret"}, {"d", 'd', ""}, {"d/l1", 'L', "@OUT@"}},
		{{"a", 'f', ""}, {"l1", 'L', "a/x"}},
		// a final symlink reached through a symlinked directory: its target is relative to where it really is
		{{"real", 'd', ""}, {"real/sub", 'd', ""}, {"real/data", 'f', ""}, {"data", 'f', ""}, {"alias", 'L', "real/sub"}, {"real/sub/l", 'L', "../data"}},
		{{"d", 'd', ""}, {"d/sub", 'd', ""}, {"d/sub/l2", 'L', "../../secret"}, {"secret", 'f', ""}, {"l1", 'L', "/d/sub"}},
	}
	// a directory link with an absolute target: its re-rooted twin inside the base holds a link, so does the host directory
	corpus = append(corpus, []osNode{{"d", 'L', "@OUT@"}, {"@OUTREL@/l1", 'L', "inside-target"}, {"@OUTREL@/f", 'f', ""}, {"inside-target", 'f', ""}})
	// absolute link targets that spell out the handle's own host base path: inside the base that path is just another path
	// (base/<base path>/…), which exists here and holds other content than the host-side reading would reach
	corpus = append(corpus, []osNode{{"f", 'f', ""}, {"@OUTREL@/x", 'd', ""}, {"@OUTREL@/x/base", 'd', ""}, {"@OUTREL@/x/base/f", 'f', ""}, {"@OUTREL@/x/base/d", 'd', ""},
		{"l", 'L', "@OUT@/x/base/f"}, {"dl", 'L', "@OUT@/x/base"}, {"d", 'd', ""}, {"d/l1", 'L', "@OUT@/x/base/d/../f"}, {"l2", 'L', "dl/f"}})
	// lassos: a link that is not on the cycle leads into a cycle of two or three links (relative, absolute, through a directory)
	corpus = append(corpus, []osNode{{"tail", 'L', "a"}, {"a", 'L', "b"}, {"b", 'L', "a"}, {"l1", 'L', "tail"}, {"d", 'd', ""}, {"d/l1", 'L', "../tail/x"}, {"l2", 'L', "/tail"}, {"sub", 'L', "d"}})
	corpus = append(corpus, []osNode{{"l1", 'L', "c1"}, {"c1", 'L', "/c2"}, {"c2", 'L', "d/../c3"}, {"c3", 'L', "c1"}, {"d", 'd', ""}, {"l2", 'L', "d/../l1"}, {"d/l1", 'L', "../l2"}, {"sub", 'L', "c2"}})
	// ordinary names that merely begin with two dots, met while resolution stands at the base (the k8s atomic-writer layout)
	corpus = append(corpus, []osNode{{"..data", 'd', ""}, {"..data/f", 'f', ""}, {"current", 'L', "..data"}, {"l1", 'L', "/..data/f"}, {"l2", 'L', "..."},
		{"...", 'f', ""}, {"d", 'd', ""}, {"d/l1", 'L', "../..data"}, {"sub", 'L', "d/../..data"}, {"f", 'f', ""}})
	// links whose own names begin with a dot, met as segments of another link's target (the k8s layout with ..data a link;
	// dotfile links to the outside)
	corpus = append(corpus, []osNode{{"..2024", 'd', ""}, {"..2024/f", 'f', ""}, {"..data", 'L', "..2024"}, {"f", 'L', "..data/f"}, {"l1", 'L', "/..data/f"},
		{".cfg", 'L', "@OUT@"}, {"l2", 'L', ".cfg/secret"}, {"d", 'd', ""}, {"d/l1", 'L', "../.cfg/secret"}, {".up", 'L', "../../.."}, {"sub", 'L', ".up/etc"}})
	// names in a string-prefix relation that is not a path-segment relation: `di` vs the ancestor `dir`, `lnk` vs the link's
	// own name `lnk2`, `up` vs `up2` — each shorter name a link to the outside, met inside the longer one's target
	corpus = append(corpus, []osNode{{"dir", 'd', ""}, {"dir/l", 'L', "../di/secret"}, {"di", 'L', "@OUT@"}, {"lnk2", 'L', "lnk"}, {"lnk", 'L', "@OUT@/secret"},
		{"up2", 'L', "up/x"}, {"up", 'L', "../../.."}, {"d", 'd', ""}, {"d/sub", 'd', ""}, {"d/sub/l1", 'L', "../../d/su/secret"}, {"d/su", 'L', "@OUT@"}})
	// link texts that name a missing node and then climb further than they descended: ENOENT for the kernel, whatever lies
	// lexically beyond (the decoys one and two levels above the base)
	corpus = append(corpus, []osNode{{"secret", 'f', ""}, {"l1", 'L', "nx/../../secret"}, {"l2", 'L', "nx/../../../secret"}, {"d", 'd', ""},
		{"d/l1", 'L', "nx/../../../secret"}, {"l3", 'L', "/nx/../../secret"}, {"l4", 'L', "d/nx/../../../secret"}, {"sub", 'L', "nx/../.."},
		{"l5", 'L', "nx/ny/../../../../secret"}})
	// a link text that passes through another link landing shallower than its spelling (`up -> /`) and goes on with `..`:
	// whatever bookkeeping the resolver keeps about its depth, the base is the floor
	corpus = append(corpus, []osNode{{"secret", 'f', ""}, {"d", 'd', ""}, {"d/up", 'L', "/"}, {"d/lnk", 'L', "up/../../secret"}, {"d/l2", 'L', "up/../../../secret"},
		{"d/sub", 'd', ""}, {"d/sub/up2", 'L', "../.."}, {"d/sub/l3", 'L', "up2/../../secret"}, {"l4", 'L', "d/up/../../secret"}, {"sub", 'L', "d/up/../.."}})
	// one link text that passes through the same other link twice (`S/…/S/secret`, S an absolute link to the outside whose
	// re-rooted target exists inside the base): the second meeting is resolved like the first — it is neither a cycle to
	// report, nor a link to leave unresolved for the kernel
	{
		ups := strings.Repeat("../", 14)
		corpus = append(corpus, []osNode{{"S", 'L', "@OUT@"}, {"@OUTREL@/secret", 'f', ""}, {"@OUTREL@/a", 'f', ""}, {"l1", 'L', "S/" + ups + "S/secret"}, {"l2", 'L', "S/../S/secret"},
			{"d", 'd', ""}, {"d/l1", 'L', "../S/" + ups + "S/secret"}, {"sub", 'L', "S/" + ups + "S"}, {"f", 'L', "S/" + ups + "S/" + ups + "S/secret"}})
	}
	// link targets longer than NAME_MAX (up to PATH_MAX is legal): 267 bytes relative, 268 absolute, one in a chain
	{
		a, b, cc := strings.Repeat("a", 100), strings.Repeat("b", 100), strings.Repeat("c", 60)
		long := a + "/" + b + "/" + cc + "/real"
		corpus = append(corpus, []osNode{{a, 'd', ""}, {a + "/" + b, 'd', ""}, {a + "/" + b + "/" + cc, 'd', ""}, {long, 'f', ""},
			{a + "/" + b + "/" + cc + "/rea", 'f', ""}, {"l1", 'L', long}, {"l2", 'L', "/" + long}, {"sub", 'L', a + "/" + b + "/" + cc}, {"d", 'd', ""}, {"d/l1", 'L', "../l1"}})
	}
	// long acyclic chains: c0 -> c1 -> ... -> c44 -> (a file inside | the secret outside, by absolute path | over-dotted)
	for _, tail := range []string{"a", "@OUT@/secret", "../../../secret"} {
		var chain []osNode
		chain = append(chain, osNode{"a", 'f', ""}, osNode{"secret", 'f', ""})
		for i := 0; i < 45; i++ {
			tg := fmt.Sprintf("c%d", i+1)
			if i == 44 {
				tg = tail
			}
			chain = append(chain, osNode{fmt.Sprintf("c%d", i), 'L', tg})
		}
		corpus = append(corpus, chain)
	}
	paths := []string{"d/l1", "d/f", "c0", "c10", ".", "a", "b", "d", "d/a", "l1", "l2", "l1/a", "l2/a", "d/l1", "d/l1/a", "sub", "sub/a", "f", "f/x", "nope", "l1/..", "d/sub/a", "l1/l2", "deep/er", "secret"}
	ops := []string{"stat", "lstat", "open", "openx", "opendir", "opendirnf", "openpathx", "mkdir", "chmod", "settimes", "readdir", "readlink", "settimesl", "lchown", "mklink", "mkfifo", "mkdev"}
	for k := 0; k < nTrees+len(corpus); k++ {
		var ns []osNode
		if k < len(corpus) {
			ns = corpus[k]
		} else {
			ns = c.genOsTree()
		}
		tt := treeTok(ns)
		ps := paths
		if k >= len(corpus) && c.Tier != "thorough" {
			ps = nil
			for i := 0; i < 8; i++ {
				ps = append(ps, paths[c.Intn(len(paths))])
			}
		}
		dps := derivedPaths(ns)
		ps = append(append([]string(nil), ps...), dps...)
		for _, p := range dps {
			for _, o := range []string{"open", "openx", "opendir", "opendirnf", "openpathx", "stat", "chmod", "readlink", "settimesl", "lchown", "mklink"} {
				osfsExec(c, fmt.Sprintf("osfs %s op %s %s", tt, o, hx(p)))
			}
		}
		for _, p := range ps {
			osfsExec(c, fmt.Sprintf("osfs %s realpath 0 %s", tt, hx(p)))
			osfsExec(c, fmt.Sprintf("osfs %s realpath 1 %s", tt, hx(p)))
		}
		for i := 0; i < 3; i++ {
			// the link being resolved sits at `start`; as inside osfs itself, the directory holding it is already resolved
			start := paths[c.Intn(len(paths))]
			// (since `fix:` 8be2f29 the directory part of the start may itself be named through links)
			osfsExec(c, fmt.Sprintf("osfs %s resolvelink %s %s", tt, hx(linkTargets[c.Intn(len(linkTargets))]), hx(start)))
		}
		for i := 0; i < 4; i++ {
			osfsExec(c, fmt.Sprintf("osfs %s op %s %s", tt, ops[c.Intn(len(ops))], hx(ps[c.Intn(len(ps))])))
		}
		if k < len(corpus) || k%5 == 0 {
			for _, tg := range []string{"..data", "...", "..x", "name", ".hidden", "..2024_01"} {
				osfsExec(c, fmt.Sprintf("osfs %s resolvelink %s %s", tt, hx(tg), hx("toplink")))
			}
		}
		// ResolveLink of a link that is itself named through a link of the tree
		if k < len(corpus) || k%5 == 0 {
			for _, n := range ns {
				if n.kind == 'L' && !strings.Contains(n.path, "@") {
					for _, tg := range []string{"b", "../x", "/a", "./d/../f"} {
						osfsExec(c, fmt.Sprintf("osfs %s resolvelink %s %s", tt, hx(tg), hx(n.path+"/zz")))
					}
				}
			}
		}
		// ResolveLink from starting points that leave the base, with rooted and relative link texts
		if k < len(corpus) || k%5 == 0 {
			for _, st := range []string{"..", "../x", "a/../../x", "../../z", "../base2/l"} {
				for _, tg := range []string{"/", "/a", "//a", "/../a", "a", "../a", ""} {
					osfsExec(c, fmt.Sprintf("osfs %s resolvelink %s %s", tt, hx(tg), hx(st)))
				}
			}
		}
		// paths that leave the base, in several spellings, through every operation
		if k < len(corpus) || k%5 == 0 {
			// (the base is <outer>/x/base: leaving paths whose joined form still starts with the base's own string are included)
			for _, up := range []string{"..", "../", "./..", "a/../..", "../x", "d/../../x", "../..", "../base", "../base2", "../base2/secret", "../base.old", "a/../../base2", "../../x/base/a", "../../x/base2/secret"} {
				osfsExec(c, fmt.Sprintf("osfs %s op %s %s", tt, ops[c.Intn(len(ops))], hx(up)))
				if k < len(corpus) {
					osfsExec(c, fmt.Sprintf("osfs %s realpath %d %s", tt, c.Intn(2), hx(up)))
				}
			}
			if k < 2 {
				for _, o := range ops {
					osfsExec(c, fmt.Sprintf("osfs %s op %s %s", tt, o, hx("..")))
				}
			}
		}
		// one handle across a tree change: every directory of the tree in turn becomes a symlink (absolute = re-rooted,
		// relative, and the absolute host path of a host-side twin)
		if k < len(corpus) || k%4 == 0 {
			for _, n := range ns {
				if n.kind != 'd' || strings.Contains(n.path, "@") {
					continue
				}
				var below []string
				for _, m := range ns {
					if strings.HasPrefix(m.path, n.path+"/") {
						below = append(below, m.path)
					}
				}
				if len(below) == 0 {
					continue
				}
				for _, tg := range []string{"/" + n.path + ".real", pathpkg.Base(n.path) + ".real", "@OUT@/hostside"} {
					osfsExec(c, fmt.Sprintf("osfs %s reuse %s %s %s", tt, hx(below[c.Intn(len(below))]), hx(n.path), hx(tg)))
				}
			}
		}
		if k < len(corpus) {
			for _, o := range ops {
				for _, p := range []string{"l1", "l2", "sub", "d/l1", "c0", "c7", "current/f", "current", "sub/f"} {
					osfsExec(c, fmt.Sprintf("osfs %s op %s %s", tt, o, hx(p)))
				}
			}
		}
	}
}
